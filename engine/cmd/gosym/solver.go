package main

// Persistent SMT solver process (z3 -in by default), push/pop protocol.

import (
	"bufio"
	"fmt"
	"os"
	"os/exec"
	"strings"
	"time"
)

type solver struct {
	name     string
	in       *bufio.Writer
	out      *bufio.Scanner
	cmd      *exec.Cmd
	nSat     int
	nUnsat   int
	nUnk     int
	time     time.Duration
	slowest  time.Duration
	log      *os.File
	cvc5     bool
	timeout  int // ms per query
	retrying bool
	retries  int
}

const (
	poolBytes = 512
	poolBools = 512
	poolCVs   = 48
	cvWidth   = 10
)

func solverDecls() []string {
	var d []string
	for i := 0; i < poolBools; i++ {
		d = append(d, fmt.Sprintf("(declare-const m%d Bool)", i))
	}
	for i := 0; i < poolBytes; i++ {
		d = append(d, fmt.Sprintf("(declare-const b%d (_ BitVec 8))", i))
	}
	for i := 0; i < poolCVs; i++ {
		d = append(d, fmt.Sprintf("(declare-const cv%d (_ BitVec %d))", i, cvWidth))
	}
	return d
}

func newSolver(kind string, timeoutMs int, logPath string) *solver {
	var cmd *exec.Cmd
	s := &solver{name: kind, timeout: timeoutMs}
	switch kind {
	case "z3", "z3-new":
		cmd = exec.Command(kind, "-in")
	case "cvc5":
		cmd = exec.Command("cvc5", "--incremental", "--lang=smt2", fmt.Sprintf("--tlimit-per=%d", timeoutMs))
		s.cvc5 = true
	default:
		panic("unknown solver " + kind)
	}
	in, _ := cmd.StdinPipe()
	out, _ := cmd.StdoutPipe()
	cmd.Stderr = os.Stderr
	if err := cmd.Start(); err != nil {
		panic(engineError{"cannot start solver " + kind + ": " + err.Error()})
	}
	sc := bufio.NewScanner(out)
	sc.Buffer(make([]byte, 1<<20), 1<<28)
	s.in = bufio.NewWriterSize(in, 1<<20)
	s.out = sc
	s.cmd = cmd
	if logPath != "" {
		s.log, _ = os.Create(logPath)
	}
	if s.cvc5 {
		s.send("(set-option :produce-models true)")
		s.send("(set-logic QF_BV)")
	}
	for _, d := range solverDecls() {
		s.send(d)
	}
	return s
}

func (s *solver) close() {
	s.send("(exit)")
	s.in.Flush()
	s.cmd.Process.Kill()
	s.cmd.Wait()
}

func (s *solver) send(line string) {
	s.in.WriteString(line)
	s.in.WriteString("\n")
	if s.log != nil {
		s.log.WriteString(line + "\n")
	}
}

func (s *solver) checkCmd() string {
	if s.cvc5 {
		return "(check-sat)"
	}
	return fmt.Sprintf("(check-sat-using (try-for qfbv %d))", s.timeout*s.scale())
}

// a query that times out is asked once more with five times the budget (a loaded machine
// must not turn into an inconclusive verdict)
func (s *solver) scale() int {
	if s.retrying {
		return 5
	}
	return 1
}

func (s *solver) readLine() string {
	if !s.out.Scan() {
		panic(engineError{"solver " + s.name + " closed its output"})
	}
	r := s.out.Text()
	if strings.Contains(r, "(error") {
		panic(engineError{"solver error: " + r})
	}
	return r
}

func (s *solver) account(r string, t0 time.Time) {
	d := time.Since(t0)
	s.time += d
	if d > s.slowest {
		s.slowest = d
	}
	switch r {
	case "sat":
		s.nSat++
	case "unsat":
		s.nUnsat++
	default:
		s.nUnk++
	}
}

// check satisfiability of the asserted context plus extra
func (s *solver) check(extra ...*term) string {
	t0 := time.Now()
	s.send("(push)")
	for _, e := range extra {
		s.send("(assert " + e.String() + ")")
	}
	s.send(s.checkCmd())
	s.send("(pop)")
	s.in.Flush()
	r := s.readLine()
	if r != "sat" && r != "unsat" && !s.retrying && !s.cvc5 {
		s.retrying = true
		s.retries++
		r = s.check(extra...)
		s.retrying = false
		return r
	}
	s.account(r, t0)
	return r
}

// check + model of the named variables (nil when not sat)
func (s *solver) model(extra []*term, names []string) (string, map[string]string) {
	t0 := time.Now()
	s.send("(push)")
	for _, e := range extra {
		s.send("(assert " + e.String() + ")")
	}
	s.send(s.checkCmd())
	s.in.Flush()
	r := s.readLine()
	if r != "sat" && r != "unsat" && !s.retrying && !s.cvc5 {
		s.send("(pop)")
		s.in.Flush()
		s.retrying = true
		s.retries++
		r2, m2 := s.model(extra, names)
		s.retrying = false
		return r2, m2
	}
	s.account(r, t0)
	res := map[string]string{}
	if r == "sat" && len(names) > 0 {
		// one get-value per variable keeps the reply on one line
		for _, n := range names {
			s.send("(get-value (" + n + "))")
		}
		s.in.Flush()
		for _, n := range names {
			line := s.readLine()
			f := strings.Fields(strings.NewReplacer("(", " ", ")", " ").Replace(line))
			if len(f) >= 2 && f[0] == n {
				res[n] = f[len(f)-1]
				if len(f) == 4 && f[1] == "_" { // (_ bv5 8)
					res[n] = f[2]
				}
			}
		}
	}
	s.send("(pop)")
	s.in.Flush()
	if r != "sat" {
		return r, nil
	}
	return r, res
}

func parseBV(x string) int64 {
	var n uint64
	switch {
	case strings.HasPrefix(x, "#x"):
		fmt.Sscanf(x[2:], "%x", &n)
	case strings.HasPrefix(x, "#b"):
		for _, c := range x[2:] {
			n = n<<1 | uint64(c-'0')
		}
	case strings.HasPrefix(x, "bv"):
		fmt.Sscanf(x[2:], "%d", &n)
	}
	return int64(n)
}
