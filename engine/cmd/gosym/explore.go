package main

// Stateless exploration by re-execution: a work item is (hoisted domains of the choice
// variables, tagged SMT decisions). See DESIGN.md §3.3.

import (
	"fmt"
	"os"
	"strings"
	"time"

	"golang.org/x/tools/go/ssa"
)

type decision struct {
	site      ssa.Instruction
	occ       int
	side      bool
	unchecked bool
}

type nondetRec struct {
	Name string
	Kind string // int bytes bool mask
	cv   *cvar
	bs   []*term // byte vars (bytes) or mask booleans (mask)
	src  string  // mask: original string
}

type runState struct {
	decisions []decision
	pos       int
	initDoms  [][]bool
	vars      []*cvar
	domains   [][]bool
	related   []bool
	pc        []*term
	nondets   []nondetRec
	nBytes    int
	nBools    int
	occ       map[ssa.Instruction]int
	steps     int
	known     map[string]bool // literals already on the path condition
	knownUp   *runState       // enclosing run state (merge regions)
	pcSent    int             // pc[:pcSent] is asserted in the solver
	noCheck   int             // >0 inside a merge region: no feasibility checks, nothing sent to the solver
	curInstr  ssa.Instruction
	depth     int
	mapEpoch0 int // maps older than this must not be written (merge regions)
	outputs   []string
	trace     []string
	ptrace    []string
}

type item struct {
	doms  [][]bool
	dec   []decision
	trace []string
}
type wl struct{ items []item }

func (w *wl) push(it item) { w.items = append(w.items, it) }

var (
	rs      *runState
	wlStack []*wl
	z3      *solver
)

func snapshotDoms() [][]bool { return append([][]bool(nil), rs.domains...) }
func curWorklist() *wl       { return wlStack[len(wlStack)-1] }

func (r *runState) dom(v *cvar) []bool { return r.domains[v.id] }

func live(d []bool) []int {
	var out []int
	for i, b := range d {
		if b {
			out = append(out, i)
		}
	}
	return out
}

func countLive(d []bool) int {
	n := 0
	for _, b := range d {
		if b {
			n++
		}
	}
	return n
}

func sameDom(a, b []bool) bool {
	if len(a) != len(b) {
		return false
	}
	for i := range a {
		if a[i] != b[i] {
			return false
		}
	}
	return true
}

func assertPC(t *term) {
	if t.isConst() && t.val == 1 {
		return
	}
	rs.pc = append(rs.pc, t)
	if rs.known == nil {
		rs.known = map[string]bool{}
	}
	if t.op == "not" {
		rs.known[t.args[0].String()] = false
	} else if t.op != "dom" {
		rs.known[t.String()] = true
		if t.op == "and" {
			for _, a := range t.args {
				if a.op == "not" {
					rs.known[a.args[0].String()] = false
				} else {
					rs.known[a.String()] = true
				}
			}
		}
	}
	if rs.noCheck == 0 {
		z3.send("(assert " + t.String() + ")")
		rs.pcSent = len(rs.pc)
	}
}

// choose among alternative domains for v; alternatives other than the first become work
// items with the domain hoisted to the creation of v.
func choose(v *cvar, alts [][]bool) int {
	if rs.related[v.id] && rs.noCheck == 0 && len(alts) > 1 {
		var keep [][]bool
		for _, a := range alts {
			if z3.check(inSet(v, a)) != "unsat" {
				keep = append(keep, a)
			} else {
				stats.prunedDomAlts++
			}
		}
		if len(keep) == 0 {
			panic(infeasiblePath{})
		}
		alts = keep
	}
	if len(alts) > 1 {
		stats.forks++
		for k := len(alts) - 1; k >= 1; k-- {
			d := snapshotDoms()
			d[v.id] = alts[k]
			nd := make([]decision, rs.pos)
			copy(nd, rs.decisions[:rs.pos])
			curWorklist().push(item{d, nd, append([]string(nil), rs.trace...)})
		}
	}
	rs.domains[v.id] = alts[0]
	assertPC(&term{op: "dom", args: []*term{inSet(v, alts[0])}})
	return 0
}

func (r *runState) lookupKnown(s string) (bool, bool) {
	for q := r; q != nil; q = q.knownUp {
		if v, ok := q.known[s]; ok {
			return v, true
		}
	}
	return false, false
}

func (r *runState) pending(key ssa.Instruction, n int) *decision {
	if r.pos < len(r.decisions) {
		d := &r.decisions[r.pos]
		if d.site == key && d.occ == n {
			return d
		}
	}
	return nil
}

func traceEv(key ssa.Instruction, n int, c value, pend *decision) {
	if !debugTrace {
		return
	}
	kind := describe(c)
	if t, ok := c.(*term); ok {
		kind = "term"
		if t.isConst() {
			kind = "constterm"
		}
	}
	if _, ok := c.(bool); ok {
		return
	}
	fn := ""
	if key != nil && key.Parent() != nil {
		fn = key.Parent().Name()
	}
	ev := fmt.Sprintf("%s:%v#%d %s", fn, key, n, kind)
	det := ""
	if t, ok := c.(*term); ok && !t.isConst() {
		_, k := rs.lookupKnown(t.String())
		det = fmt.Sprintf("\tknown=%v pend=%v len=%d pos=%d/%d %.200s", k, pend != nil, len(t.String()), rs.pos, len(rs.decisions), t.String())
	}
	i := len(rs.trace)
	rs.trace = append(rs.trace, ev+det)
	if i < len(rs.ptrace) && strings.SplitN(rs.ptrace[i], "\t", 2)[0] != ev && !traceReported {
		traceReported = true
		fmt.Fprintf(os.Stderr, "TRACE DIVERGENCE at event %d:\n  parent: %s\n  child:  %s\n", i, rs.ptrace[i], ev)
		for j := i - 3; j < i; j++ {
			if j >= 0 {
				fmt.Fprintf(os.Stderr, "  before: %s\n", rs.ptrace[j])
			}
		}
	}
}

var debugTrace = os.Getenv("GOSYM_TRACE") != ""
var traceReported bool

func branch(c value) bool {
	key := rs.curInstr
	n := rs.occ[key]
	rs.occ[key] = n + 1
	pend := rs.pending(key, n)
	if rs.noCheck == 0 {
		traceEv(key, n, c, pend)
	}
	switch x := c.(type) {
	case bool:
		if pend != nil {
			rs.pos++
			if pend.side != x {
				panic(infeasiblePath{})
			}
		}
		return x
	case *tab:
		d := rs.dom(x.v)
		dt := make([]bool, len(d))
		df := make([]bool, len(d))
		nt, nf := 0, 0
		for i, b := range d {
			if b {
				if x.vals[i].(bool) {
					dt[i] = true
					nt++
				} else {
					df[i] = true
					nf++
				}
			}
		}
		if pend != nil {
			rs.pos++
			part, cnt := dt, nt
			if !pend.side {
				part, cnt = df, nf
			}
			if cnt == 0 {
				panic(infeasiblePath{})
			}
			rs.domains[x.v.id] = part
			assertPC(&term{op: "dom", args: []*term{inSet(x.v, part)}})
			return pend.side
		}
		if nf == 0 {
			return true
		}
		if nt == 0 {
			return false
		}
		choose(x.v, [][]bool{dt, df})
		return sameDom(rs.domains[x.v.id], dt)
	case *term:
		if x.isConst() {
			b := x.val == 1
			if pend != nil {
				rs.pos++
				if pend.side != b {
					panic(infeasiblePath{})
				}
			}
			return b
		}
		if x.w != 0 {
			panic(unsupported{"branch on bit-vector term"})
		}
		if pend == nil {
			// the literal (or its negation) is already on the path condition
			if v, ok := rs.lookupKnown(x.String()); ok {
				return v
			}
			if x.op == "not" {
				if v, ok := rs.lookupKnown(x.args[0].String()); ok {
					return !v
				}
			}
		}
		return branchTerm(x, key, n, pend)
	case *union:
		panic(unsupported{"branch on union"})
	}
	panic(unsupported{fmt.Sprintf("branch on %T", c)})
}

func branchTerm(c *term, key ssa.Instruction, n int, pend *decision) bool {
	if pend != nil {
		rs.pos++
		lit := c
		if !pend.side {
			lit = mkNot(c)
		}
		if rs.pos == len(rs.decisions) && pend.unchecked && rs.noCheck == 0 {
			if z3.check(lit) == "unsat" {
				panic(infeasiblePath{})
			}
		}
		assertPC(lit)
		return pend.side
	}
	if rs.pos < len(rs.decisions) {
		// A recorded decision lies ahead, so on the recorded path this branch took no
		// decision: it was implied by the path condition (the parent recognised it
		// syntactically; here the term may be spelled differently because a domain is
		// narrower). Resolve it semantically; anything else is an engine error.
		if impliedByPC(c) {
			stats.impliedBranches++
			return true
		}
		if impliedByPC(mkNot(c)) {
			stats.impliedBranches++
			return false
		}
		d := rs.decisions[rs.pos]
		panic(engineError{fmt.Sprintf("decision order mismatch: at %v#%d, pending %v#%d", key, n, d.site, d.occ)})
	}
	if rs.noCheck == 0 || mergeForks > mergeForkLimit {
		// decide both sides now: an infeasible side never becomes a work item. Inside a
		// merge region feasibility is normally not checked (a dead alternative only
		// contributes an unsatisfiable guard), but a region that keeps forking - a
		// branch inside a loop over input - is switched to checked mode, otherwise
		// mutually exclusive conditions multiply into 2^k inner paths.
		extra := rs.pc[rs.pcSent:]
		rt := z3.check(append(append([]*term(nil), extra...), c)...)
		if rt == "unsat" {
			assertPC(mkNot(c))
			rs.decisions = append(rs.decisions[:rs.pos], decision{key, n, false, false})
			rs.pos++
			return false
		}
		rf := z3.check(append(append([]*term(nil), extra...), mkNot(c))...)
		if rf == "unsat" {
			assertPC(c)
			rs.decisions = append(rs.decisions[:rs.pos], decision{key, n, true, false})
			rs.pos++
			return true
		}
	}
	stats.forks++
	if rs.noCheck > 0 {
		mergeForks++
	}
	nd := make([]decision, rs.pos, rs.pos+1)
	copy(nd, rs.decisions[:rs.pos])
	nd = append(nd, decision{key, n, false, false})
	curWorklist().push(item{snapshotDoms(), nd, append([]string(nil), rs.trace...)})
	rs.decisions = append(rs.decisions[:rs.pos], decision{key, n, true, false})
	rs.pos++
	assertPC(c)
	return true
}

// fork on the alternatives of a union (SMT decisions)
func splitUnion(v value) value {
	u, ok := v.(*union)
	if !ok {
		return v
	}
	for i, a := range u.alts {
		if i == len(u.alts)-1 {
			// last alternative: its guard is implied when the guards are exhaustive; assert anyway
			if !branch(boolVal(a.g)) {
				panic(infeasiblePath{})
			}
			return a.v
		}
		if branch(boolVal(a.g)) {
			return a.v
		}
	}
	panic(engineError{"empty union"})
}

// ---------- merging of pure calls ----------

type outcome struct {
	doms [][]bool
	smt  []*term
	ret  value
}

var noMergeAt = map[ssa.Instruction]bool{}

// forks taken inside the current outermost merge region
var mergeForks int

const mergeForkLimit = 24

var mapEpoch int

// Results of merged calls are cached across paths: the same function on the same
// (string / table-of-string) arguments under the same variable domains yields the same
// merged value; it is handed out as a deep copy so that allocation freshness is kept.
var mergeCache = map[string]value{}

func mergeKey(fn *ssa.Function, args []value) (string, bool) {
	var sb strings.Builder
	sb.WriteString(fn.String())
	for _, a := range args {
		sb.WriteByte('|')
		switch x := a.(type) {
		case string:
			sb.WriteString("s:" + x)
		case int64:
			fmt.Fprintf(&sb, "i:%d", x)
		case bool:
			fmt.Fprintf(&sb, "b:%v", x)
		case *tab:
			fmt.Fprintf(&sb, "t%d:", x.v.id)
			d := rs.dom(x.v)
			for i, l := range d {
				if !l {
					sb.WriteByte('-')
					continue
				}
				switch y := x.vals[i].(type) {
				case string:
					sb.WriteString(y)
				case int64:
					fmt.Fprintf(&sb, "%d", y)
				case bool:
					fmt.Fprintf(&sb, "%v", y)
				default:
					return "", false
				}
				sb.WriteByte(0)
			}
		default:
			return "", false
		}
	}
	return sb.String(), true
}

func mergeCall(fn *ssa.Function, args []value, free []value) value {
	site := rs.curInstr
	if noMergeAt[site] {
		return callBody(fn, args, free)
	}
	key, cacheable := mergeKey(fn, args)
	if cacheable && !cfg.NoMemo {
		if r, ok := mergeCache[key]; ok {
			stats.mergeCacheHits++
			return deepCopy(r, map[*value]*value{})
		}
	}
	r := mergeCallUncached(fn, args, free)
	if cacheable && !cfg.NoMemo && !noMergeAt[site] {
		mergeCache[key] = deepCopy(r, map[*value]*value{})
	}
	return r
}

// functions currently being merged (outermost first)
var mergeStack []string

// set when a merged callee turns out to write caller-visible state
var impureMerged = map[string]bool{}

func impureMerge(what string) {
	for _, f := range mergeStack {
		impureMerged[f] = true
	}
	panic(engineError{what + " inside a merged (assumed pure) call: " + strings.Join(mergeStack, " > ")})
}

func mergeCallUncached(fn *ssa.Function, args []value, free []value) value {
	site := rs.curInstr
	if rs.noCheck == 0 {
		mergeForks = 0
		mergeStack = mergeStack[:0]
	}
	mergeStack = append(mergeStack, fn.String())
	defer func() { mergeStack = mergeStack[:len(mergeStack)-1] }()
	outer := rs
	pcBase := len(outer.pc)
	sub := &wl{items: []item{{doms: snapshotDoms()}}}
	wlStack = append(wlStack, sub)
	depth0 := len(wlStack)
	var outs []outcome
	abnormal := false
	for len(sub.items) > 0 && !abnormal {
		if !jobDeadline.IsZero() && time.Now().After(jobDeadline) {
			panic(unwindFail{"job time budget exhausted (inside a merge region)"})
		}
		it := sub.items[len(sub.items)-1]
		sub.items = sub.items[:len(sub.items)-1]
		inner := &runState{decisions: it.dec, vars: outer.vars, related: outer.related, nondets: outer.nondets,
			nBytes: outer.nBytes, nBools: outer.nBools, noCheck: 1, occ: map[ssa.Instruction]int{}, curInstr: site,
			depth: outer.depth, mapEpoch0: mapEpoch, pcSent: outer.pcSent}
		inner.domains = append([][]bool(nil), it.doms...)
		inner.pc = append([]*term(nil), outer.pc...)
		inner.knownUp = outer
		rs = inner
		var ret value
		func() {
			defer func() {
				if r := recover(); r != nil {
					switch r.(type) {
					case infeasiblePath:
						ret = infeasiblePath{}
					case rtPanic, assumeFail, assertStop:
						abnormal = true
					default:
						panic(r)
					}
				}
			}()
			ret = callBody(fn, args, free)
		}()
		wlStack = wlStack[:depth0]
		outer.steps += inner.steps
		inner.steps = 0
		stats.mergedPaths++
		if abnormal {
			break
		}
		if _, inf := ret.(infeasiblePath); inf {
			continue
		}
		if inner.pos < len(inner.decisions) {
			panic(engineError{"merge: recorded decision never reached in " + fn.String()})
		}
		if len(inner.vars) != len(outer.vars) || len(inner.nondets) != len(outer.nondets) {
			panic(unsupported{"nondet created inside merged call " + fn.String()})
		}
		outs = append(outs, outcome{inner.domains, inner.pc[pcBase:], ret})
	}
	wlStack = wlStack[:depth0-1]
	rs = outer
	rs.curInstr = site
	if abnormal {
		noMergeAt[site] = true
		stats.mergeFallbacks++
		return callBody(fn, args, free)
	}
	stats.merges++
	if len(outs) == 0 {
		panic(infeasiblePath{})
	}
	changed := map[int]bool{}
	pure := true
	for _, o := range outs {
		for id := range outer.domains {
			if !sameDom(o.doms[id], outer.domains[id]) {
				changed[id] = true
			}
		}
		for _, t := range o.smt {
			if t.op != "dom" {
				pure = false
			}
		}
	}
	if len(changed) == 0 && pure {
		if len(outs) != 1 {
			panic(engineError{"merge: several outcomes without guards in " + fn.String()})
		}
		return outs[0].ret
	}
	if len(changed) == 1 && pure {
		var v *cvar
		for id := range changed {
			v = outer.vars[id]
		}
		if tabbable(v, outs) {
			return assembleTab(v, outs)
		}
	}
	var alts []alt
	for _, o := range outs {
		g := tTrue
		for id := 0; id < len(outer.domains); id++ { // in variable order: the term text must be deterministic
			if !changed[id] {
				continue
			}
			if !sameDom(o.doms[id], outer.domains[id]) {
				g = mkAnd(g, inSet(outer.vars[id], o.doms[id]))
			}
		}
		for _, t := range o.smt {
			if t.op != "dom" {
				g = mkAnd(g, t)
			}
		}
		alts = append(alts, alt{g, o.ret})
	}
	return mergeAlts(alts)
}

func tabbableVal(v *cvar, x value) bool {
	switch y := x.(type) {
	case tuple:
		for _, e := range y {
			if !tabbableVal(v, e) {
				return false
			}
		}
		return true
	case *tab:
		return y.v == v
	case symStr, *union, *term:
		return false
	}
	return true
}

func tabbable(v *cvar, outs []outcome) bool {
	for _, o := range outs {
		if !tabbableVal(v, o.ret) {
			return false
		}
	}
	return true
}

// build a table over v from outcomes that partition v's domain
func assembleTab(v *cvar, outs []outcome) value {
	if r, ok := outs[0].ret.(tuple); ok {
		out := make(tuple, len(r))
		for k := range r {
			col := make([]outcome, len(outs))
			for i, o := range outs {
				col[i] = outcome{o.doms, nil, o.ret.(tuple)[k]}
			}
			out[k] = assembleTab(v, col)
		}
		return out
	}
	vals := make([]value, v.size)
	for _, o := range outs {
		for i, l := range o.doms[v.id] {
			if !l {
				continue
			}
			switch x := o.ret.(type) {
			case *tab:
				if x.v != v {
					panic(unsupported{"merge: result depends on another variable"})
				}
				vals[i] = x.vals[i]
			case symStr, *union, *term:
				panic(unsupported{"merge: symbolic result inside a table"})
			default:
				vals[i] = x
			}
		}
	}
	return simplify(&tab{v, vals})
}
