package main

// Engine values. Concrete representation follows x/tools/go/ssa/interp; symbolic kinds are
// *term (Bool / BV8), symStr (bytes of concrete length), *union (guarded alternatives) and
// *tab (a table over a finite-domain choice variable).

import (
	"fmt"
	"go/constant"
	"go/types"

	"golang.org/x/tools/go/ssa"
)

type value interface{}
type structure []value
type array []value
type tuple []value

// slices are native []value sharing a backing array; caps are controlled by the engine's
// own append (growslice model) so that aliasing behaves as in the real runtime.
type sliceVal struct {
	s    []value
	elem int64 // element size in bytes (for growslice), 0 = unknown
}

type iface struct {
	t types.Type
	v value
}
type closure struct {
	fn  *ssa.Function
	env []value
}
type mapVal struct {
	keys, vals []value
}

// finite-domain choice variable
type cvar struct {
	id   int
	size int
	lo   int64
	name string
}
type tab struct {
	v    *cvar
	vals []value
}

// symbolic string of concrete length; elements int64 or *term (BV8)
type symStr struct{ b []value }

type alt struct {
	g *term
	v value
}
type union struct{ alts []alt }

// outcomes that end a path
type rtPanic struct {
	msg  string
	site string
}
type unsupported struct{ msg string }
type engineError struct{ msg string }
type assumeFail struct{}
type infeasiblePath struct{}
type assertStop struct{}

var sizes = types.StdSizes{WordSize: 8, MaxAlign: 8}

func zero(t types.Type) value {
	switch u := t.Underlying().(type) {
	case *types.Basic:
		switch {
		case u.Info()&types.IsBoolean != 0:
			return false
		case u.Info()&types.IsInteger != 0:
			return int64(0)
		case u.Info()&types.IsString != 0:
			return ""
		case u.Kind() == types.UnsafePointer:
			return (*value)(nil)
		case u.Kind() == types.UntypedNil:
			return nil
		}
	case *types.Pointer:
		return (*value)(nil)
	case *types.Struct:
		s := make(structure, u.NumFields())
		for i := range s {
			s[i] = zero(u.Field(i).Type())
		}
		return s
	case *types.Array:
		a := make(array, u.Len())
		for i := range a {
			a[i] = zero(u.Elem())
		}
		return a
	case *types.Slice:
		return sliceVal{nil, sizes.Sizeof(u.Elem())}
	case *types.Map:
		return (*mapVal)(nil)
	case *types.Chan:
		return (*chanVal)(nil)
	case *types.Interface:
		return iface{}
	case *types.Signature:
		return (*closure)(nil)
	case *types.Tuple:
		tp := make(tuple, u.Len())
		for i := range tp {
			tp[i] = zero(u.At(i).Type())
		}
		return tp
	}
	panic(unsupported{"zero " + t.String()})
}

func isUnsigned(t types.Type) bool {
	b, ok := t.Underlying().(*types.Basic)
	return ok && b.Info()&types.IsUnsigned != 0
}

// wrap a concrete integer to the width of its Go type
func wrapInt(t types.Type, v int64) int64 {
	b, ok := t.Underlying().(*types.Basic)
	if !ok {
		return v
	}
	switch b.Kind() {
	case types.Int8:
		return int64(int8(v))
	case types.Int16:
		return int64(int16(v))
	case types.Int32:
		return int64(int32(v))
	case types.Uint8:
		return int64(uint8(v))
	case types.Uint16:
		return int64(uint16(v))
	case types.Uint32:
		return int64(uint32(v))
	}
	return v
}

func constVal(c *ssa.Const) value {
	if c.Value == nil {
		return zero(c.Type())
	}
	switch u := c.Type().Underlying().(type) {
	case *types.Basic:
		switch {
		case u.Info()&types.IsBoolean != 0:
			return constant.BoolVal(c.Value)
		case u.Info()&types.IsInteger != 0:
			if i, ok := constant.Int64Val(constant.ToInt(c.Value)); ok {
				return i
			}
			u64, _ := constant.Uint64Val(constant.ToInt(c.Value))
			return int64(u64)
		case u.Info()&types.IsString != 0:
			return constant.StringVal(c.Value)
		}
	}
	panic(unsupported{"const " + c.String()})
}

func copyVal(v value) value {
	switch x := v.(type) {
	case structure:
		n := make(structure, len(x))
		for i, e := range x {
			n[i] = copyVal(e)
		}
		return n
	case array:
		n := make(array, len(x))
		for i, e := range x {
			n[i] = copyVal(e)
		}
		return n
	}
	return v
}

// deep copy for memoised results (fresh pointers, slices, maps)
func deepCopy(v value, seen map[*value]*value) value {
	switch x := v.(type) {
	case structure:
		n := make(structure, len(x))
		for i, e := range x {
			n[i] = deepCopy(e, seen)
		}
		return n
	case array:
		n := make(array, len(x))
		for i, e := range x {
			n[i] = deepCopy(e, seen)
		}
		return n
	case tuple:
		n := make(tuple, len(x))
		for i, e := range x {
			n[i] = deepCopy(e, seen)
		}
		return n
	case sliceVal:
		if x.s == nil {
			return x
		}
		full := x.s[:cap(x.s)]
		n := make([]value, len(full))
		for i, e := range full {
			n[i] = deepCopy(e, seen)
		}
		return sliceVal{n[:len(x.s)], x.elem}
	case *mapVal:
		if x == nil {
			return x
		}
		m := &mapVal{}
		for i := range x.keys {
			m.keys = append(m.keys, x.keys[i])
			m.vals = append(m.vals, deepCopy(x.vals[i], seen))
		}
		return m
	case *value:
		if x == nil {
			return x
		}
		if p, ok := seen[x]; ok {
			return p
		}
		var c value
		p := &c
		seen[x] = p
		*p = deepCopy(*x, seen)
		return p
	case iface:
		return iface{x.t, deepCopy(x.v, seen)}
	case *tab:
		n := make([]value, len(x.vals))
		for i, e := range x.vals {
			n[i] = deepCopy(e, seen)
		}
		// a cached table refers to the choice variable object of the path that computed it:
		// re-bind it to the current path's variable with the same id
		v := x.v
		if rs != nil && v.id < len(rs.vars) {
			v = rs.vars[v.id]
		}
		return &tab{v, n}
	case *union:
		n := make([]alt, len(x.alts))
		for i, a := range x.alts {
			n[i] = alt{a.g, deepCopy(a.v, seen)}
		}
		return &union{n}
	case errString:
		return errString{deepCopy(x.s, seen)}
	}
	return v
}

func eqConc(a, b value) bool {
	switch x := a.(type) {
	case nil:
		return b == nil
	case bool:
		y, ok := b.(bool)
		return ok && x == y
	case int64:
		y, ok := b.(int64)
		return ok && x == y
	case string:
		y, ok := b.(string)
		return ok && x == y
	case *value:
		y, ok := b.(*value)
		return ok && x == y
	case *mapVal:
		y, ok := b.(*mapVal)
		return ok && x == y
	case *closure:
		y, ok := b.(*closure)
		return ok && x == y
	}
	return false
}

// ---- growslice model (Go 1.20+ runtime, 64-bit) ----

var sizeClasses = []int64{0, 8, 16, 24, 32, 48, 64, 80, 96, 112, 128, 144, 160, 176, 192, 208, 224, 240, 256, 288, 320, 352, 384, 416, 448, 480, 512, 576, 640, 704, 768, 896, 1024, 1152, 1280, 1408, 1536, 1792, 2048, 2304, 2688, 3072, 3200, 3456, 4096, 4864, 5120, 5376, 6144, 6528, 6784, 6912, 8192, 9472, 9728, 10240, 10880, 12288, 13568, 14336, 16384, 18432, 19072, 20480, 21760, 24576, 27264, 28672, 32768}

func roundupsize(size int64, noscan bool) int64 {
	req := size
	if !noscan && size > 512 {
		size += 8 // malloc header (go1.22+)
	}
	if req <= 32768-8 {
		for _, c := range sizeClasses {
			if c >= size {
				return c - (size - req)
			}
		}
	}
	// large object: page rounding
	const page = 8192
	size = req
	return (size + page - 1) / page * page
}

func nextSliceCap(newLen, oldCap int64) int64 {
	newcap := oldCap
	doublecap := newcap + newcap
	if newLen > doublecap {
		return newLen
	}
	const threshold = 256
	if oldCap < threshold {
		return doublecap
	}
	for {
		newcap += (newcap + 3*threshold) >> 2
		if uint64(newcap) >= uint64(newLen) {
			break
		}
	}
	return newcap
}

func growCap(oldCap, newLen, elemSize int64, noscan bool) int64 {
	if elemSize == 0 {
		return newLen
	}
	nc := nextSliceCap(newLen, oldCap)
	mem := roundupsize(nc*elemSize, noscan)
	return mem / elemSize
}

func typeNoScan(t types.Type) bool {
	switch u := t.Underlying().(type) {
	case *types.Basic:
		return u.Info()&types.IsString == 0 && u.Kind() != types.UnsafePointer
	case *types.Struct:
		for i := 0; i < u.NumFields(); i++ {
			if !typeNoScan(u.Field(i).Type()) {
				return false
			}
		}
		return true
	case *types.Array:
		return typeNoScan(u.Elem())
	}
	return false
}

// append with runtime-accurate capacity growth
func appendSlice(s sliceVal, add []value, elemT types.Type) sliceVal {
	if len(add) == 0 {
		return s
	}
	n := len(s.s)
	if n+len(add) <= cap(s.s) {
		r := s.s[:n+len(add)]
		for i, e := range add {
			r[n+i] = copyVal(e)
		}
		return sliceVal{r, s.elem}
	}
	es := s.elem
	if es == 0 && elemT != nil {
		es = sizes.Sizeof(elemT)
	}
	nc := growCap(int64(cap(s.s)), int64(n+len(add)), es, elemT != nil && typeNoScan(elemT))
	r := make([]value, n+len(add), nc)
	copy(r, s.s)
	for i, e := range add {
		r[n+i] = copyVal(e)
	}
	if elemT != nil {
		z := zero(elemT)
		full := r[:nc]
		for i := n + len(add); i < int(nc); i++ {
			full[i] = copyVal(z)
		}
	}
	return sliceVal{r, es}
}

func describe(v value) string {
	switch x := v.(type) {
	case *tab:
		return fmt.Sprintf("tab(%s)", x.v.name)
	case symStr:
		return fmt.Sprintf("symStr(%d)", len(x.b))
	case *union:
		return fmt.Sprintf("union(%d)", len(x.alts))
	case *term:
		return "term:" + x.String()
	}
	return fmt.Sprintf("%T", v)
}
