// gosym: bounded symbolic execution of Go SSA (go-spdx verification engine).
//
//	gosym -repo /repo -harness /verif/harness -jobs jobs.json -shard i/n -out out.jsonl
//
// Every job names a harness function (package spdxexp or cmd's package main, injected through
// a go/packages overlay) and concrete string arguments. The harness is explored on all
// feasible paths; every vAssert is decided by the SMT solver.
package main

import (
	"encoding/hex"
	"encoding/json"
	"flag"
	"fmt"
	"go/types"
	"os"
	"path/filepath"
	"runtime"
	"runtime/debug"
	"runtime/pprof"
	"sort"
	"strings"
	"time"

	"golang.org/x/tools/go/packages"
	"golang.org/x/tools/go/ssa"
	"golang.org/x/tools/go/ssa/ssautil"
)

type config struct {
	Repo        string
	Harness     string
	NoMerge     bool
	NoMemo      bool
	MaxDepth    int
	MaxSteps    int
	MaxSlice    int
	MaxPaths    int
	TimeoutMs   int
	Solver      string
	Partition   bool
	MaxViol     int
	Verbose     bool
	Overlays    string
	SolverLog   string
	CrossCheck  string
	Internal    bool
	JobTimeoutS int
}

var cfg config

const modPath = "github.com/github/go-spdx/v2"

var interpPkgs = map[string]bool{
	modPath + "/spdxexp":              true,
	modPath + "/spdxexp/spdxlicenses": true,
	modPath + "/cmd":                  true,
}

var memoList = map[string]bool{}
var mergeList = map[string]bool{}

func qual(names ...string) map[string]bool {
	m := map[string]bool{}
	for _, n := range names {
		m[modPath+"/spdxexp."+n] = true
	}
	return m
}

type job struct {
	ID      string   `json:"id"`
	Pkg     string   `json:"pkg"` // spdxexp | cmd
	Harness string   `json:"harness"`
	Args    []string `json:"args"`
	Merge   []string `json:"merge,omitempty"`   // functions to merge (spdxexp-qualified short names)
	NoMerge bool     `json:"nomerge,omitempty"` // run without any merging
	// whole-table harnesses cannot be explored by plain forking: when a merged function turns
	// out to write shared state the job is inconclusive instead of being retried unmerged
	NoFallback bool `json:"nofallback,omitempty"`
}

type vecEntry struct {
	Name  string `json:"name"`
	Kind  string `json:"kind"`
	Int   int64  `json:"int,omitempty"`
	Bool  bool   `json:"bool,omitempty"`
	Bytes string `json:"bytes,omitempty"` // hex
}

type violation struct {
	Assert string     `json:"assert"`
	Vector []vecEntry `json:"vector"`
	Panic  string     `json:"panic,omitempty"`
	Site   string     `json:"site,omitempty"`
}

type assertStat struct {
	Reached  int        `json:"reached"`
	Violated int        `json:"violated"`
	Unknown  int        `json:"unknown"`
	Witness  []vecEntry `json:"witness,omitempty"`
}

type jobResult struct {
	ID          string                 `json:"id"`
	Harness     string                 `json:"harness"`
	Args        []string               `json:"args"`
	Paths       int                    `json:"paths"`
	Completed   int                    `json:"completed"`
	Panics      int                    `json:"panics"`
	PanicSites  map[string]int         `json:"panic_sites,omitempty"`
	Infeasible  int                    `json:"infeasible"`
	AssumeFail  int                    `json:"assume_failed"`
	Steps       int                    `json:"steps"`
	Sat         int                    `json:"sat"`
	Unsat       int                    `json:"unsat"`
	Unknown     int                    `json:"unknown"`
	SolverS     float64                `json:"solver_s"`
	SlowestS    float64                `json:"slowest_query_s"`
	WallS       float64                `json:"wall_s"`
	Asserts     map[string]*assertStat `json:"asserts"`
	Violations  []violation            `json:"violations,omitempty"`
	PanicWits   []violation            `json:"panic_witnesses,omitempty"`
	Inconcl     []string               `json:"inconclusive,omitempty"`
	Partition   string                 `json:"partition,omitempty"`
	Merges      int                    `json:"merges"`
	MergedPaths int                    `json:"merged_paths"`
	Fallbacks   int                    `json:"merge_fallbacks"`
	TwoVar      int                    `json:"two_var_relations"`
	MemoHits    int                    `json:"memo_hits"`
	MergeHits   int                    `json:"merge_cache_hits"`
	Forks       int                    `json:"forks"`
	Outputs     []string               `json:"outputs,omitempty"`
	GlobalW     []string               `json:"global_writes,omitempty"`
	GlobalR     []string               `json:"mutable_global_reads,omitempty"`
	SyncUses    []string               `json:"sync_uses,omitempty"`
	Goroutines  int                    `json:"goroutines_sequentialised,omitempty"`
	SortAssumed bool                   `json:"long_sort_modelled_by_insertion_sort,omitempty"`
	MapRanges   int                    `json:"map_ranges,omitempty"`
	Funcs       []string               `json:"functions_encoded,omitempty"`
	Notes       map[string]string      `json:"notes,omitempty"`
	Unmerged    []string               `json:"unmerged_impure,omitempty"`
}

var stats struct {
	forks, merges, mergedPaths, mergeFallbacks, twoVar, memoHits, prunedDomAlts, mapRanges, mergeCacheHits, impliedBranches int
}

var cur *jobResult
var funcsSeen = map[*ssa.Function]bool{}

// ---------- C13 monitors ----------

var globalWrites = map[string]bool{}
var globalReads = map[string]bool{}
var mutableGlobals = map[*ssa.Global]bool{} // globals stored to outside init (static scan)
var inInit bool

func noteGlobalUse(g *ssa.Global) {
	if !inInit && mutableGlobals[g] {
		globalReads[g.String()] = true
	}
}
func noteGlobalStore(g *ssa.Global) {
	if inOnce > 0 {
		onceInits[g.String()] = true
		return
	}
	if !inInit {
		globalWrites[g.String()] = true
		if rs != nil && rs.noCheck > 0 {
			impureMerge("store to global " + g.String())
		}
	}
}
func noteMapWrite(m *mapVal) {
	if globalMaps[m] && !inInit && inOnce == 0 {
		globalWrites["map reachable from a global"] = true
		if rs != nil && rs.noCheck > 0 {
			impureMerge("write to a map reachable from a global")
		}
	}
}

var globalMaps = map[*mapVal]bool{}
var onceInits = map[string]bool{}

// static scan: which package-level variables are written outside init?
func scanMutableGlobals(pkgs []*ssa.Package) {
	for _, p := range pkgs {
		for _, m := range p.Members {
			fn, ok := m.(*ssa.Function)
			if !ok {
				continue
			}
			scanFn(fn)
		}
		// methods
		for _, m := range p.Members {
			if t, ok := m.(*ssa.Type); ok {
				for _, typ := range []types.Type{t.Type(), types.NewPointer(t.Type())} {
					ms := prog.MethodSets.MethodSet(typ)
					for i := 0; i < ms.Len(); i++ {
						if f := prog.MethodValue(ms.At(i)); f != nil {
							scanFn(f)
						}
					}
				}
			}
		}
	}
}

var scanned = map[*ssa.Function]bool{}

func scanFn(fn *ssa.Function) {
	if scanned[fn] || fn.Blocks == nil {
		return
	}
	scanned[fn] = true
	isInit := fn.Name() == "init" || strings.HasPrefix(fn.Name(), "init#")
	for _, b := range fn.Blocks {
		for _, in := range b.Instrs {
			if st, ok := in.(*ssa.Store); ok && !isInit {
				if g := rootGlobal(st.Addr); g != nil {
					mutableGlobals[g] = true
				}
			}
			if mu, ok := in.(*ssa.MapUpdate); ok && !isInit {
				if g := rootGlobal(mu.Map); g != nil {
					mutableGlobals[g] = true
				}
			}
		}
	}
	for _, af := range fn.AnonFuncs {
		scanFn(af)
	}
}

func rootGlobal(v ssa.Value) *ssa.Global {
	for i := 0; i < 8; i++ {
		switch x := v.(type) {
		case *ssa.Global:
			return x
		case *ssa.FieldAddr:
			v = x.X
		case *ssa.IndexAddr:
			v = x.X
		case *ssa.UnOp:
			v = x.X
		case *ssa.Slice:
			v = x.X
		default:
			return nil
		}
	}
	return nil
}

// ---------- assertions ----------

func nondetNames() []string {
	var names []string
	for _, nd := range rs.nondets {
		switch nd.Kind {
		case "int":
			names = append(names, cvTerm(nd.cv).name)
		default:
			for _, b := range nd.bs {
				if b != nil {
					names = append(names, b.name)
				}
			}
		}
	}
	return names
}

func vectorFromModel(m map[string]string) []vecEntry {
	out := []vecEntry{}
	for _, nd := range rs.nondets {
		e := vecEntry{Name: nd.Name, Kind: nd.Kind}
		switch nd.Kind {
		case "int":
			idx := parseBV(m[cvTerm(nd.cv).name])
			d := rs.dom(nd.cv)
			if int(idx) >= len(d) || !d[idx] {
				// unconstrained in the model: any live value
				for i, l := range d {
					if l {
						idx = int64(i)
						break
					}
				}
			}
			e.Int = nd.cv.lo + idx
		case "bool":
			e.Bool = m[nd.bs[0].name] == "true"
		case "bytes":
			bs := make([]byte, len(nd.bs))
			for i, b := range nd.bs {
				bs[i] = byte(parseBV(m[b.name]))
			}
			e.Bytes = hex.EncodeToString(bs)
		case "mask":
			bs := []byte(nd.src)
			for i, b := range nd.bs {
				if b != nil && m[b.name] == "true" {
					bs[i] ^= 0x20
				}
			}
			e.Bytes = hex.EncodeToString(bs)
		}
		out = append(out, e)
	}
	return out
}

func assertRec(id string) *assertStat {
	st := cur.Asserts[id]
	if st == nil {
		st = &assertStat{}
		cur.Asserts[id] = st
	}
	return st
}

func doAssert(c value, id string) {
	if rs.noCheck > 0 {
		panic(unsupported{"vAssert inside a merged call"})
	}
	st := assertRec(id)
	var t *term
	switch x := c.(type) {
	case *union:
		t = asBool(splitUnion(x))
	default:
		t = asBool(c)
	}
	if t.isConst() && t.val == 1 {
		st.Reached++
		if st.Witness == nil {
			r, m := z3.model(nil, nondetNames())
			if r == "unsat" {
				st.Reached--
				panic(infeasiblePath{})
			}
			if r == "sat" {
				st.Witness = vectorFromModel(m)
			}
		}
		return
	}
	r, m := z3.model([]*term{mkNot(t)}, nondetNames())
	switch r {
	case "sat":
		st.Reached++
		st.Violated++
		if len(cur.Violations) < cfg.MaxViol {
			cur.Violations = append(cur.Violations, violation{Assert: id, Vector: vectorFromModel(m)})
		}
		if t.isConst() {
			panic(assertStop{})
		}
		// continue under the assumption that the assertion holds
		if z3.check(t) != "sat" {
			panic(assertStop{})
		}
		assertPC(t)
	case "unsat":
		if t.isConst() { // concrete false on an infeasible path
			panic(infeasiblePath{})
		}
		st.Reached++
		if st.Witness == nil {
			if r2, m2 := z3.model(nil, nondetNames()); r2 == "sat" {
				st.Witness = vectorFromModel(m2)
			} else if r2 == "unsat" {
				st.Reached--
				panic(infeasiblePath{})
			}
		}
	default:
		st.Unknown++
		inconclusive("solver answered " + r + " for assertion " + id)
	}
}

func inconclusive(reason string) {
	for _, r := range cur.Inconcl {
		if r == reason {
			return
		}
	}
	if len(cur.Inconcl) < 20 {
		cur.Inconcl = append(cur.Inconcl, reason)
	}
}

// ---------- driver ----------

var harnessPkgs = map[string]*ssa.Package{}

func resetGlobals() {
	globals = map[*ssa.Global]*value{}
	globalMaps = map[*mapVal]bool{}
	for _, p := range harnessPkgs {
		for _, mm := range p.Members {
			if g, ok := mm.(*ssa.Global); ok {
				v := zero(g.Type().Underlying().(*types.Pointer).Elem())
				globals[g] = &v
			}
		}
	}
	for _, p := range prog.AllPackages() {
		if p.Pkg.Path() == modPath+"/spdxexp/spdxlicenses" {
			for _, mm := range p.Members {
				if g, ok := mm.(*ssa.Global); ok {
					v := zero(g.Type().Underlying().(*types.Pointer).Elem())
					globals[g] = &v
				}
			}
		}
	}
}

func markGlobalMaps() {
	for _, g := range globals {
		markMaps(*g, 0)
	}
}

func markMaps(v value, d int) {
	if d > 5 {
		return
	}
	switch x := v.(type) {
	case *mapVal:
		if x != nil {
			globalMaps[x] = true
			for _, e := range x.vals {
				markMaps(e, d+1)
			}
		}
	case structure:
		for _, e := range x {
			markMaps(e, d+1)
		}
	case *value:
		if x != nil {
			markMaps(*x, d+1)
		}
	case sliceVal:
		for _, e := range x.s {
			markMaps(e, d+1)
		}
	}
}

func runInits(pkg *ssa.Package) {
	inInit = true
	defer func() { inInit = false }()
	for _, p := range prog.AllPackages() {
		if p.Pkg.Path() == modPath+"/spdxexp/spdxlicenses" {
			if f := p.Func("init"); f != nil {
				call(f, nil, nil)
			}
		}
	}
	if f := pkg.Func("init"); f != nil {
		call(f, nil, nil)
	}
	markGlobalMaps()
}

func runJob(j job) *jobResult {
	t0 := time.Now()
	res := &jobResult{ID: j.ID, Harness: j.Harness, Args: j.Args, Asserts: map[string]*assertStat{}, PanicSites: map[string]int{}}
	cur = res
	jobDeadline = time.Time{}
	if cfg.JobTimeoutS > 0 {
		jobDeadline = t0.Add(time.Duration(cfg.JobTimeoutS) * time.Second)
	}
	stats = struct {
		forks, merges, mergedPaths, mergeFallbacks, twoVar, memoHits, prunedDomAlts, mapRanges, mergeCacheHits, impliedBranches int
	}{}
	globalWrites = map[string]bool{}
	globalReads = map[string]bool{}
	syncUses = map[string]bool{}
	noMergeAt = map[ssa.Instruction]bool{}
	mergeCache = map[string]value{}
	pkgName := j.Pkg
	if pkgName == "" {
		pkgName = "spdxexp"
	}
	pkg := harnessPkgs[pkgName]
	if pkg == nil {
		res.Inconcl = append(res.Inconcl, "package not loaded: "+pkgName)
		return res
	}
	h := pkg.Func(j.Harness)
	if h == nil {
		res.Inconcl = append(res.Inconcl, "harness not found: "+j.Harness)
		return res
	}
	mergeList = map[string]bool{}
	if !j.NoMerge {
		mergeList = qual(j.Merge...)
	}
	sat0, unsat0, unk0, st0 := z3.nSat, z3.nUnsat, z3.nUnk, z3.time
	z3.slowest = 0
	args := make([]value, len(j.Args))
	for i, a := range j.Args {
		args[i] = a
	}
	argv := sliceVal{args, 16}
	top := &wl{items: []item{{}}}
	var allPCs []*term
	var lastVars []*cvar
	for len(top.items) > 0 {
		if res.Paths >= cfg.MaxPaths {
			inconclusive(fmt.Sprintf("path budget %d exhausted", cfg.MaxPaths))
			break
		}
		if res.Paths%64 == 63 {
			var ms runtime.MemStats
			runtime.ReadMemStats(&ms)
			if ms.HeapAlloc > 6<<30 {
				inconclusive("memory budget (6 GiB) exhausted")
				break
			}
		}
		if cfg.JobTimeoutS > 0 && time.Since(t0) > time.Duration(cfg.JobTimeoutS)*time.Second {
			inconclusive(fmt.Sprintf("job time budget (%d s) exhausted after %d paths", cfg.JobTimeoutS, res.Paths))
			break
		}
		if len(top.items) > 2_000_000 {
			inconclusive("work list budget exhausted")
			break
		}
		it := top.items[len(top.items)-1]
		top.items = top.items[:len(top.items)-1]
		wlStack = []*wl{top}
		rs = &runState{decisions: it.dec, initDoms: it.doms, occ: map[ssa.Instruction]int{}, ptrace: it.trace}
		asciiKnown = map[*term]bool{}
		onceDone = map[*value]bool{}
		builders = map[*value]value{}
		goQueue = nil
		jsonStubs = map[string]*jsonStub{}
		writtenFiles = nil
		syncMaps = map[*value]*mapVal{}
		deferStacks = map[*frame][]deferred{}
		resetGlobals()
		z3.send("(push)")
		outcome := "ok"
		func() {
			defer func() {
				if r := recover(); r != nil {
					wlStack = []*wl{top}
					if rs.noCheck > 0 {
						// an abnormal exit escaped a merge region
						if _, ok := r.(unsupported); !ok {
							if _, ok2 := r.(engineError); !ok2 {
								if _, ok3 := r.(unwindFail); !ok3 {
									inconclusive(fmt.Sprintf("abnormal exit inside merge region: %v", r))
								}
							}
						}
					}
					switch e := r.(type) {
					case rtPanic:
						outcome = "panic"
						// only feasible panics count
						rr, m := z3.model(nil, nondetNames())
						if rr == "unsat" {
							outcome = "infeasible"
							return
						}
						if rr != "sat" {
							inconclusive("solver answered " + rr + " on a panicking path")
						}
						res.Panics++
						key := e.msg + " @ " + e.site
						res.PanicSites[key]++
						if rr == "sat" && res.PanicSites[key] <= 2 && len(res.PanicWits) < cfg.MaxViol {
							res.PanicWits = append(res.PanicWits, violation{Assert: "no-panic", Vector: vectorFromModel(m), Panic: e.msg, Site: e.site})
						}
					case assumeFail:
						outcome = "assume"
						res.AssumeFail++
					case assertStop:
						outcome = "ok"
					case infeasiblePath:
						outcome = "infeasible"
					case unsupported:
						outcome = "unsupported"
						inconclusive("unmodelled: " + e.msg)
					case unwindFail:
						outcome = "unwind"
						inconclusive("unwinding assertion failed: " + e.msg)
					case engineError:
						outcome = "engine"
						inconclusive("engine error: " + e.msg)
					default:
						outcome = "engine"
						inconclusive(fmt.Sprintf("engine crash: %v\n%s", r, firstLines(string(debug.Stack()), 30)))
					}
				}
			}()
			runInits(pkg)
			call(h, []value{argv}, nil)
			runPendingGoroutines() // goroutines nobody waited for still run
			if rs.pos < len(rs.decisions) {
				panic(engineError{"recorded decision never reached"})
			}
		}()
		z3.send("(pop)")
		res.Paths++
		res.Steps += rs.steps
		if outcome == "infeasible" {
			res.Infeasible++
		} else {
			if outcome == "ok" {
				res.Completed++
			}
			if cfg.Partition && len(allPCs) <= 600 {
				allPCs = append(allPCs, mkAnd(rs.pc...))
				if len(rs.vars) >= len(lastVars) {
					lastVars = rs.vars
				}
			}
		}
		for _, o := range rs.outputs {
			if !contains(res.Outputs, o) {
				res.Outputs = append(res.Outputs, o)
			}
		}
	}
	if cfg.Partition && len(res.Inconcl) == 0 {
		// exploration-completeness certificate: no input inside the declared ranges escapes
		// every recorded path condition
		neg := make([]*term, 0, len(allPCs)+len(lastVars))
		for _, v := range lastVars {
			neg = append(neg, mkCmp("ult", cvTerm(v), bvConst(int64(v.size), cvWidth)))
		}
		for _, p := range allPCs {
			neg = append(neg, mkNot(p))
		}
		if len(allPCs) <= 600 {
			res.Partition = z3.check(neg...)
			if res.Partition != "unsat" {
				inconclusive("partition check: " + res.Partition)
			}
		} else {
			res.Partition = "skipped (too many paths)"
		}
	}
	for w := range globalWrites {
		res.GlobalW = append(res.GlobalW, w)
	}
	for r := range globalReads {
		res.GlobalR = append(res.GlobalR, r)
	}
	for u := range syncUses {
		res.SyncUses = append(res.SyncUses, u)
	}
	sort.Strings(res.SyncUses)
	for f := range funcsSeen {
		n := f.String()
		n = strings.TrimPrefix(n, modPath+"/")
		if !strings.Contains(n, ".v") && !strings.Contains(n, ".VH_") && !strings.Contains(n, "$") {
			res.Funcs = append(res.Funcs, n)
		}
	}
	sort.Strings(res.Funcs)
	funcsSeen = map[*ssa.Function]bool{}
	res.Goroutines = goSpawned
	goSpawned = 0
	res.SortAssumed = sortAssumed
	sortAssumed = false
	sort.Strings(res.GlobalW)
	sort.Strings(res.GlobalR)
	res.Sat, res.Unsat, res.Unknown = z3.nSat-sat0, z3.nUnsat-unsat0, z3.nUnk-unk0
	res.SolverS = (z3.time - st0).Seconds()
	res.SlowestS = z3.slowest.Seconds()
	res.WallS = time.Since(t0).Seconds()
	res.Merges, res.MergedPaths, res.Fallbacks = stats.merges, stats.mergedPaths, stats.mergeFallbacks
	res.TwoVar, res.MemoHits, res.Forks, res.MapRanges = stats.twoVar, stats.memoHits, stats.forks, stats.mapRanges
	res.MergeHits = stats.mergeCacheHits
	if res.Unknown > 0 {
		inconclusive(fmt.Sprintf("%d solver queries answered unknown", res.Unknown))
	}
	return res
}

func contains(xs []string, s string) bool {
	for _, x := range xs {
		if x == s {
			return true
		}
	}
	return false
}

func firstLines(s string, n int) string {
	l := strings.Split(s, "\n")
	if len(l) > n {
		l = l[:n]
	}
	return strings.Join(l, "\n")
}

func load() {
	overlay := map[string][]byte{}
	for _, sub := range []string{"spdxexp", "cmd", "spdxexp_internal"} {
		if sub == "spdxexp_internal" && !cfg.Internal {
			continue
		}
		files, _ := filepath.Glob(filepath.Join(cfg.Harness, sub, "*.go"))
		tgt := strings.TrimSuffix(sub, "_internal")
		for _, f := range files {
			if strings.HasSuffix(f, "_test.go") {
				continue
			}
			b, err := os.ReadFile(f)
			if err != nil {
				fatal("read harness: " + err.Error())
			}
			overlay[filepath.Join(cfg.Repo, tgt, "zz_verif_"+filepath.Base(f))] = b
		}
	}
	for _, kv := range strings.Split(cfg.Overlays, ",") {
		if i := strings.Index(kv, "="); i > 0 {
			fb, err := os.ReadFile(kv[i+1:])
			if err != nil {
				fatal("read overlay: " + err.Error())
			}
			overlay[kv[:i]] = fb
		}
	}
	pc := &packages.Config{Mode: packages.LoadAllSyntax, Dir: cfg.Repo, BuildFlags: []string{"-tags=verif"},
		Overlay: overlay, Env: append(os.Environ(), "GOFLAGS=-mod=mod", "GOPROXY=off", "GOSUMDB=off", "GOTOOLCHAIN=local")}
	pkgs, err := packages.Load(pc, "./spdxexp", "./cmd")
	if err != nil {
		fatal("load: " + err.Error())
	}
	nerr := 0
	for _, p := range pkgs {
		for _, e := range p.Errors {
			fmt.Fprintln(os.Stderr, "LOAD-ERROR", e)
			nerr++
		}
	}
	if nerr > 0 {
		fatal("the repository plus harness overlay does not compile")
	}
	var spkgs []*ssa.Package
	prog, spkgs = ssautil.AllPackages(pkgs, ssa.InstantiateGenerics)
	prog.Build()
	for i, p := range pkgs {
		switch {
		case strings.HasSuffix(p.PkgPath, "/spdxexp"):
			harnessPkgs["spdxexp"] = spkgs[i]
		case strings.HasSuffix(p.PkgPath, "/cmd"):
			harnessPkgs["cmd"] = spkgs[i]
		}
	}
	var scan []*ssa.Package
	for _, p := range prog.AllPackages() {
		if interpPkgs[p.Pkg.Path()] {
			scan = append(scan, p)
		}
	}
	scanMutableGlobals(scan)
	memoList = qual("activeLicense", "deprecatedLicense", "exceptionLicense", "getLicenseRange")
	for _, n := range []string{"GetLicenses", "GetDeprecated", "GetExceptions", "LicenseRanges"} {
		memoList[modPath+"/spdxexp/spdxlicenses."+n] = true
	}
}

func fatal(msg string) {
	fmt.Fprintln(os.Stderr, "gosym: "+msg)
	fmt.Println("ENGINE-FATAL " + msg)
	os.Exit(2)
}

func main() {
	var jobsFile, shard, out string
	flag.StringVar(&cfg.Repo, "repo", "/repo", "repository root")
	flag.StringVar(&cfg.Harness, "harness", "/verif/harness", "harness directory")
	flag.StringVar(&jobsFile, "jobs", "", "jobs file (JSON list)")
	flag.StringVar(&shard, "shard", "0/1", "i/n: run jobs with index % n == i")
	flag.StringVar(&out, "out", "", "output file (JSON lines)")
	flag.BoolVar(&cfg.NoMerge, "nomerge", false, "disable merging")
	flag.BoolVar(&cfg.NoMemo, "nomemo", false, "disable memoisation")
	flag.IntVar(&cfg.MaxDepth, "maxdepth", 200, "call depth cap (unwinding assertion)")
	flag.IntVar(&cfg.MaxSteps, "maxsteps", 50_000_000, "SSA instructions per path (unwinding assertion)")
	flag.IntVar(&cfg.MaxSlice, "maxslice", 100000, "largest make()")
	flag.IntVar(&cfg.MaxPaths, "maxpaths", 5_000_000, "paths per job")
	flag.IntVar(&cfg.TimeoutMs, "timeout", 60000, "solver timeout per query (ms)")
	flag.StringVar(&cfg.Solver, "solver", "z3", "z3 | z3-new | cvc5")
	flag.BoolVar(&cfg.Partition, "partition", false, "exploration-completeness certificate per job")
	flag.IntVar(&cfg.MaxViol, "maxviol", 8, "violation records kept per job")
	flag.BoolVar(&cfg.Verbose, "v", false, "verbose")
	flag.StringVar(&cfg.Overlays, "overlay", "", "extra source overlays virtual=real,...")
	flag.BoolVar(&cfg.Internal, "internal", false, "also load the harnesses that use library internals (harness/spdxexp_internal)")
	flag.IntVar(&cfg.JobTimeoutS, "jobtimeout", 1200, "wall-clock budget per job in seconds (0 = none); exceeding it is inconclusive")
	flag.StringVar(&cfg.SolverLog, "solverlog", "", "dump solver input")
	cpuprof := flag.String("cpuprofile", "", "write a CPU profile")
	listFuncs := flag.Bool("funcs", false, "print the functions reachable from the exported API and exit")
	flag.Parse()
	debug.SetGCPercent(400)
	debug.SetMemoryLimit(3 << 30)
	if *cpuprof != "" {
		f, _ := os.Create(*cpuprof)
		pprof.StartCPUProfile(f)
		defer pprof.StopCPUProfile()
	}
	load()
	if *listFuncs {
		printReachable()
		return
	}
	var jobs []job
	b, err := os.ReadFile(jobsFile)
	if err != nil {
		fatal(err.Error())
	}
	if err := json.Unmarshal(b, &jobs); err != nil {
		fatal("jobs: " + err.Error())
	}
	var si, sn int
	fmt.Sscanf(shard, "%d/%d", &si, &sn)
	if sn == 0 {
		sn = 1
	}
	w := os.Stdout
	if out != "" {
		w, err = os.Create(out)
		if err != nil {
			fatal(err.Error())
		}
		defer w.Close()
	}
	z3 = newSolver(cfg.Solver, cfg.TimeoutMs, cfg.SolverLog)
	defer z3.close()
	enc := json.NewEncoder(w)
	for i, j := range jobs {
		if i%sn != si {
			continue
		}
		r := runJob(j)
		for try := 0; try < 4 && len(impureMerged) > 0 && !j.NoFallback; try++ {
			// a merged function writes shared state on this tree: explore it by plain forking
			var keep []string
			dropped := []string{}
			for _, m := range j.Merge {
				if impureMerged[modPath+"/spdxexp."+m] {
					dropped = append(dropped, m)
				} else {
					keep = append(keep, m)
				}
			}
			impureMerged = map[string]bool{}
			if len(dropped) == 0 {
				break
			}
			j.Merge = keep
			r = runJob(j)
			r.Unmerged = append(r.Unmerged, dropped...)
		}
		if cfg.Verbose {
			fmt.Fprintf(os.Stderr, "job %s %s %v: paths=%d panics=%d viol=%d wall=%.2fs solver=%.2fs inconcl=%v\n", j.ID, j.Harness, j.Args, r.Paths, r.Panics, len(r.Violations), r.WallS, r.SolverS, r.Inconcl)
		}
		enc.Encode(r)
	}
}

func printReachable() {
	pkg := harnessPkgs["spdxexp"]
	seen := map[*ssa.Function]bool{}
	var visit func(f *ssa.Function)
	visit = func(f *ssa.Function) {
		if f == nil || seen[f] || f.Blocks == nil || f.Pkg == nil || !interpPkgs[f.Pkg.Pkg.Path()] {
			return
		}
		seen[f] = true
		for _, b := range f.Blocks {
			for _, in := range b.Instrs {
				if c, ok := in.(ssa.CallInstruction); ok {
					if cf := c.Common().StaticCallee(); cf != nil {
						visit(cf)
					}
				}
				if mc, ok := in.(*ssa.MakeClosure); ok {
					visit(mc.Fn.(*ssa.Function))
				}
			}
		}
	}
	for _, n := range []string{"Satisfies", "ValidateLicenses", "ExtractLicenses"} {
		visit(pkg.Func(n))
	}
	var names []string
	for f := range seen {
		names = append(names, f.String())
	}
	sort.Strings(names)
	for _, n := range names {
		fmt.Println(n)
	}
}
