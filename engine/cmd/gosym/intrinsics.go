package main

// Environment models (DESIGN.md §3.7) and the harness primitives.

import (
	"encoding/hex"
	"fmt"
	"go/token"
	"go/types"
	"regexp"
	"strconv"
	"strings"

	"golang.org/x/tools/go/ssa"
)

var errType = types.Universe.Lookup("error").Type()

func mkError(msg value) value { return iface{t: errType, v: errString{msg}} }

func concreteStr(v value) (string, bool) {
	s, ok := v.(string)
	return s, ok
}

func strPred2(a, b value, conc func(a, b string) bool, sym func(a, b value) value) value {
	if isSym(a) || isSym(b) {
		return sym(a, b)
	}
	if ta, ok := a.(*tab); ok {
		if tb, ok2 := b.(*tab); ok2 && ta.v != tb.v {
			if r := sym(a, b); r != nil {
				return r
			}
		}
	}
	return lift2(a, b, func(a, b value) value { return conc(a.(string), b.(string)) })
}

func intrinsic(name string, fn *ssa.Function, args []value, free []value) (value, bool) {
	switch name {
	case "errors.New":
		return mkError(args[0]), true
	case "strings.HasPrefix":
		return strPred2(args[0], args[1], strings.HasPrefix, func(s, p value) value {
			return liftU2(s, p, func(s, p value) value {
				sb, pb := toBytes(s), toBytes(p)
				if len(pb) > len(sb) {
					return false
				}
				return strEq(fromBytes(sb[:len(pb)]), p)
			})
		}), true
	case "strings.HasSuffix":
		return strPred2(args[0], args[1], strings.HasSuffix, func(s, p value) value {
			return liftU2(s, p, func(s, p value) value {
				sb, pb := toBytes(s), toBytes(p)
				if len(pb) > len(sb) {
					return false
				}
				return strEq(fromBytes(sb[len(sb)-len(pb):]), p)
			})
		}), true
	case "strings.EqualFold":
		if ta, ok := args[0].(*tab); ok {
			if tb, ok2 := args[1].(*tab); ok2 && ta.v != tb.v {
				return twoVar(token.EQL, ta, tb, true), true
			}
		}
		if isSym(args[0]) || isSym(args[1]) {
			return strFoldEq(args[0], args[1]), true
		}
		return lift2(args[0], args[1], func(a, b value) value { return strings.EqualFold(a.(string), b.(string)) }), true
	case "strings.ToLower", "strings.ToUpper":
		up := name == "strings.ToUpper"
		if isSym(args[0]) {
			return liftU(args[0], func(s value) value {
				b := toBytes(s)
				requireASCII(b)
				out := make([]value, len(b))
				for i, e := range b {
					switch c := e.(type) {
					case int64:
						if up && c >= 'a' && c <= 'z' || !up && c >= 'A' && c <= 'Z' {
							c ^= 0x20
						}
						out[i] = c
					case *term:
						lo, hi := int64('A'), int64('Z')
						if up {
							lo, hi = 'a', 'z'
						}
						flipped := &term{op: "raw", w: 8, str: "(bvxor " + c.String() + " #x20)"}
						out[i] = mkIte(rngTerm(c, lo, hi), flipped, c)
					}
				}
				return fromBytes(out)
			}), true
		}
		return lift1(args[0], func(a value) value {
			if up {
				return strings.ToUpper(a.(string))
			}
			return strings.ToLower(a.(string))
		}), true
	case "regexp.Compile", "regexp.MustCompile":
		p, ok := concretize(args[0]).(string)
		if !ok {
			panic(unsupported{"regexp with a symbolic pattern"})
		}
		var rv value = compileRegex(p)
		if _, err := regexp.Compile(p); err != nil {
			if name == "regexp.MustCompile" {
				panic(rtp("regexp.MustCompile: " + err.Error()))
			}
			return tuple{(*value)(nil), mkError(err.Error())}, true
		}
		if name == "regexp.MustCompile" {
			return &rv, true
		}
		return tuple{&rv, iface{}}, true
	case "(*regexp.Regexp).FindStringIndex", "(*regexp.Regexp).MatchString", "(*regexp.Regexp).FindString":
		rp, _ := args[0].(*value)
		if rp == nil {
			panic(rtp("nil pointer dereference"))
		}
		r := (*rp).(regexObj)
		subj := args[1]
		if t, ok := subj.(*tab); ok {
			subj = concretize(t)
		}
		subj = splitUnion(subj)
		short := name[strings.LastIndex(name, ".")+1:]
		if s, ok := subj.(string); ok {
			re := regexp.MustCompile(r.pattern)
			switch short {
			case "FindStringIndex":
				loc := re.FindStringIndex(s)
				if loc == nil {
					return sliceVal{nil, 8}, true
				}
				return sliceVal{[]value{int64(loc[0]), int64(loc[1])}, 8}, true
			case "MatchString":
				return re.MatchString(s), true
			case "FindString":
				return re.FindString(s), true
			}
		}
		if r.native {
			panic(unsupported{"regexp pattern outside the symbolic model: " + r.pattern})
		}
		loc := findStringIndexSym(r, subj).(sliceVal)
		switch short {
		case "FindStringIndex":
			return loc, true
		case "MatchString":
			return loc.s != nil, true
		case "FindString":
			if loc.s == nil {
				return "", true
			}
			return fromBytes(toBytes(subj)[loc.s[0].(int64):loc.s[1].(int64)]), true
		}
	case "fmt.Sprintf":
		return sprintf(args[0], args[1].(sliceVal).s), true
	case "fmt.Errorf":
		return mkError(sprintf(args[0], args[1].(sliceVal).s)), true
	case "fmt.Sprint":
		return sprintf("%v", args[0].(sliceVal).s), true
	case "fmt.Println", "fmt.Printf", "fmt.Print", "log.Println", "log.Printf", "log.Print", "log.Fatal", "log.Fatalf",
		"fmt.Fprintf", "fmt.Fprintln", "fmt.Fprint", "(*os.File).Write", "(*os.File).WriteString":
		rs.outputs = append(rs.outputs, name)
		if strings.HasPrefix(name, "log.Fatal") {
			panic(rtp("log.Fatal"))
		}
		return tuple{int64(0), iface{}}, true
	case "sort.Slice", "sort.SliceStable":
		sl, ok := args[0].(iface).v.(sliceVal)
		if !ok {
			panic(unsupported{"sort.Slice of " + describe(args[0].(iface).v)})
		}
		cl := args[1].(*closure)
		n := len(sl.s)
		if n > 12 && name == "sort.Slice" {
			panic(unwindFail{"sort.Slice with more than 12 elements (pdqsort not modelled)"})
		}
		less := func(i, j int) bool { return branch(call(cl.fn, []value{int64(i), int64(j)}, cl.env)) }
		for i := 1; i < n; i++ {
			for j := i; j > 0 && less(j, j-1); j-- {
				sl.s[j], sl.s[j-1] = sl.s[j-1], sl.s[j]
			}
		}
		return nil, true
	case "sort.Strings":
		sl := args[0].(sliceVal)
		ss := make([]string, len(sl.s))
		for i, e := range sl.s {
			s, ok := e.(string)
			if !ok {
				panic(unsupported{"sort.Strings on symbolic strings"})
			}
			ss[i] = s
		}
		sortStrings(ss)
		for i := range ss {
			sl.s[i] = ss[i]
		}
		return nil, true
	}
	if fn.Pkg != nil && interpPkgs[fn.Pkg.Pkg.Path()] && strings.HasPrefix(fn.Name(), "v") {
		if r, ok := harnessPrim(fn.Name(), args); ok {
			return r, true
		}
	}
	return nil, false
}

func sortStrings(ss []string) {
	for i := 1; i < len(ss); i++ {
		for j := i; j > 0 && ss[j] < ss[j-1]; j-- {
			ss[j], ss[j-1] = ss[j-1], ss[j]
		}
	}
}

// boolean connective over concrete booleans / tables of the same variable: stays a table
func nativeBool2(name string, a, b value) (value, bool) {
	ok := func(v value) (*cvar, bool) {
		switch x := v.(type) {
		case bool:
			return nil, true
		case *tab:
			return x.v, true
		}
		return nil, false
	}
	va, oka := ok(a)
	vb, okb := ok(b)
	if !oka || !okb || (va != nil && vb != nil && va != vb) {
		return nil, false
	}
	return lift2(a, b, func(x, y value) value {
		p, q := x.(bool), y.(bool)
		switch name {
		case "vAnd":
			return p && q
		case "vOr":
			return p || q
		case "vImplies":
			return !p || q
		}
		return p == q
	}), true
}

func newBoolVar(name string) *term {
	if rs.nBools >= poolBools {
		panic(unsupported{"too many symbolic booleans"})
	}
	t := &term{op: "var", w: 0, name: fmt.Sprintf("m%d", rs.nBools)}
	rs.nBools++
	return t
}

func newByteVar() *term {
	if rs.nBytes >= poolBytes {
		panic(unsupported{"too many symbolic bytes"})
	}
	t := &term{op: "var", w: 8, name: fmt.Sprintf("b%d", rs.nBytes)}
	rs.nBytes++
	return t
}

func harnessPrim(name string, args []value) (value, bool) {
	switch name {
	case "vPickInt":
		lo, hi := args[0].(int64), args[1].(int64)
		return newCVar(lo, hi, args[2].(string)), true
	case "vBytes":
		n := int(concretize(args[0]).(int64))
		rec := nondetRec{Name: args[1].(string), Kind: "bytes"}
		b := make([]value, n)
		for i := range b {
			v := newByteVar()
			rec.bs = append(rec.bs, v)
			b[i] = v
		}
		rs.nondets = append(rs.nondets, rec)
		if n == 0 {
			return "", true
		}
		return symStr{b}, true
	case "vBool":
		v := newBoolVar(args[0].(string))
		rs.nondets = append(rs.nondets, nondetRec{Name: args[0].(string), Kind: "bool", bs: []*term{v}})
		return v, true
	case "vCaseMask":
		src, ok := concretize(args[0]).(string)
		if !ok {
			panic(unsupported{"vCaseMask of a symbolic string"})
		}
		rec := nondetRec{Name: args[1].(string), Kind: "mask", src: src}
		bs := make([]value, len(src))
		for i := 0; i < len(src); i++ {
			c := int64(src[i])
			if isLetter(c) {
				m := newBoolVar("")
				rec.bs = append(rec.bs, m)
				bs[i] = &term{op: "ite", w: 8, args: []*term{m, bvConst(c^0x20, 8), bvConst(c, 8)}}
			} else {
				rec.bs = append(rec.bs, nil)
				bs[i] = c
			}
		}
		rs.nondets = append(rs.nondets, rec)
		return fromBytes(bs), true
	case "vAssume":
		if !branch(args[0]) {
			panic(assumeFail{})
		}
		return nil, true
	case "vAssert":
		doAssert(args[0], args[1].(string))
		return nil, true
	case "vAnd", "vOr", "vImplies", "vIff":
		if r, ok := nativeBool2(name, args[0], args[1]); ok {
			return r, true
		}
		x, y := asBool(args[0]), asBool(args[1])
		switch name {
		case "vAnd":
			return boolVal(mkAnd(x, y)), true
		case "vOr":
			return boolVal(mkOr(x, y)), true
		case "vImplies":
			return boolVal(mkImplies(x, y)), true
		}
		return boolVal(mkIff(x, y)), true
	case "vNot":
		return notVal(args[0]), true
	case "vShow", "vShowList":
		return showConcrete(name, args[0]), true
	case "vIteStr":
		c := args[0]
		if ct, ok := c.(*term); ok {
			return mergeAlts([]alt{{ct, args[1]}, {mkNot(ct), args[2]}}), true
		}
		ab := lift2(args[1], args[2], func(a, b value) value { return tuple{a, b} })
		return lift2(c, ab, func(c, ab value) value {
			if c.(bool) {
				return ab.(tuple)[0]
			}
			return ab.(tuple)[1]
		}), true
	case "vIsIDChar":
		return isIDCharVal(args[0]), true
	case "vConcretize":
		return concretize(args[0]), true
	case "vConcretizeStr":
		v := args[0]
		if t, ok := v.(*tab); ok {
			v = concretize(t)
		}
		return splitUnion(v), true
	case "vReplaying":
		return false, true
	case "vNote":
		if k, ok := args[0].(string); ok {
			if v, ok2 := args[1].(string); ok2 && cur != nil && strings.HasPrefix(k, "eq:") {
				if cur.Notes == nil {
					cur.Notes = map[string]string{}
				}
				cur.Notes[k] = v
			}
		}
		return nil, true
	case "vStrEq":
		return binop(token.EQL, args[0], args[1], nil), true
	case "vOutputs":
		return int64(len(rs.outputs)), true
	case "vGlobalWrites":
		return int64(len(globalWrites)), true
	}
	return nil, false
}

// ---------- fmt.Sprintf ----------

func sprintf(format value, args []value) value {
	f, ok := format.(string)
	if !ok {
		panic(unsupported{"symbolic format string"})
	}
	allConc := true
	var nat []interface{}
	for _, a := range args {
		v := a.(iface).v
		switch x := v.(type) {
		case string, bool:
			nat = append(nat, x)
		case int64:
			t := a.(iface).t
			if b, isB := t.Underlying().(*types.Basic); isB && b.Kind() == types.Uint8 {
				nat = append(nat, uint8(x))
			} else if isB && b.Kind() == types.Int32 {
				nat = append(nat, rune(x))
			} else {
				nat = append(nat, int(x))
			}
		case errString:
			if s, isS := x.s.(string); isS {
				nat = append(nat, fmt.Errorf("%s", s))
			} else {
				allConc = false
			}
		default:
			allConc = false
		}
	}
	if allConc {
		return fmt.Sprintf(f, nat...)
	}
	var out value = ""
	ai := 0
	for i := 0; i < len(f); i++ {
		if f[i] != '%' {
			j := i
			for j < len(f) && f[j] != '%' {
				j++
			}
			out = strConcat(out, f[i:j])
			i = j - 1
			continue
		}
		i++
		if i >= len(f) {
			panic(unsupported{"bad format"})
		}
		if f[i] == '%' {
			out = strConcat(out, "%")
			continue
		}
		if ai >= len(args) {
			panic(unsupported{"format: missing argument"})
		}
		a := args[ai].(iface).v
		ai++
		switch f[i] {
		case 's', 'v':
			switch x := a.(type) {
			case string, symStr, *union:
				out = strConcat(out, x)
			case *tab:
				out = strConcat(out, lift1(x, func(e value) value {
					switch y := e.(type) {
					case string:
						return y
					case int64:
						return strconv.FormatInt(y, 10)
					}
					panic(unsupported{"format %s of table element"})
				}))
			case int64:
				out = strConcat(out, strconv.FormatInt(x, 10))
			case errString:
				out = strConcat(out, x.s)
			default:
				panic(unsupported{"format %s of " + describe(a)})
			}
		case 'd':
			switch x := a.(type) {
			case int64:
				out = strConcat(out, strconv.FormatInt(x, 10))
			case *tab:
				out = strConcat(out, lift1(x, func(e value) value { return strconv.FormatInt(e.(int64), 10) }))
			default:
				panic(unsupported{"format %d of " + describe(a)})
			}
		case 'c':
			switch x := a.(type) {
			case int64:
				out = strConcat(out, string(rune(x)))
			case *term:
				if !branch(boolVal(isASCIITerm(x))) {
					panic(unsupported{"%c of a non-ASCII symbolic byte"})
				}
				out = strConcat(out, symStr{[]value{x}})
			default:
				panic(unsupported{"format %c of " + describe(a)})
			}
		default:
			panic(unsupported{"format verb %" + string(f[i]) + " with symbolic argument"})
		}
	}
	return out
}

// ---------- native fallbacks for concrete arguments ----------

func nativeCall(fn *ssa.Function, args []value) (value, bool) {
	name := fn.String()
	strs := make([]string, len(args))
	allStr := true
	for i, a := range args {
		if t, ok := a.(*tab); ok {
			a = concretize(t)
			args[i] = a
		}
		if u, ok := a.(*union); ok {
			a = splitUnion(u)
			args[i] = a
		}
		s, ok := a.(string)
		if !ok {
			allStr = false
		}
		strs[i] = s
	}
	if allStr {
		switch name {
		case "strings.Contains":
			return strings.Contains(strs[0], strs[1]), true
		case "strings.Index":
			return int64(strings.Index(strs[0], strs[1])), true
		case "strings.LastIndex":
			return int64(strings.LastIndex(strs[0], strs[1])), true
		case "strings.TrimSpace":
			return strings.TrimSpace(strs[0]), true
		case "strings.TrimPrefix":
			return strings.TrimPrefix(strs[0], strs[1]), true
		case "strings.TrimSuffix":
			return strings.TrimSuffix(strs[0], strs[1]), true
		case "strings.Trim":
			return strings.Trim(strs[0], strs[1]), true
		case "strings.TrimLeft":
			return strings.TrimLeft(strs[0], strs[1]), true
		case "strings.TrimRight":
			return strings.TrimRight(strs[0], strs[1]), true
		case "strings.Title":
			return strings.Title(strs[0]), true
		case "strings.Count":
			return int64(strings.Count(strs[0], strs[1])), true
		case "strings.Compare":
			return int64(strings.Compare(strs[0], strs[1])), true
		case "strings.Fields":
			return strSlice(strings.Fields(strs[0])), true
		case "strings.Split":
			return strSlice(strings.Split(strs[0], strs[1])), true
		case "strconv.Atoi":
			n, err := strconv.Atoi(strs[0])
			if err != nil {
				return tuple{int64(0), mkError(err.Error())}, true
			}
			return tuple{int64(n), iface{}}, true
		case "strconv.Quote":
			return strconv.Quote(strs[0]), true
		case "encoding/hex.EncodeToString":
		}
	}
	switch name {
	case "strings.Repeat":
		if s, ok := args[0].(string); ok {
			return strings.Repeat(s, int(args[1].(int64))), true
		}
	case "strings.ReplaceAll":
		if allStr {
			return strings.ReplaceAll(strs[0], strs[1], strs[2]), true
		}
	case "strings.Replace":
		if s, ok := args[0].(string); ok {
			return strings.Replace(s, args[1].(string), args[2].(string), int(args[3].(int64))), true
		}
	case "strings.Join":
		if sl, ok := args[0].(sliceVal); ok {
			var out value = ""
			sep := args[1]
			for i, e := range sl.s {
				if i > 0 {
					out = strConcat(out, sep)
				}
				out = strConcat(out, e)
			}
			return out, true
		}
	case "strconv.Itoa":
		if n, ok := args[0].(int64); ok {
			return strconv.Itoa(int(n)), true
		}
	case "strings.IndexByte":
		if s, ok := args[0].(string); ok {
			return int64(strings.IndexByte(s, byte(args[1].(int64)))), true
		}
	case "unicode.IsLetter", "unicode.IsDigit", "unicode.IsSpace", "unicode.IsUpper", "unicode.IsLower":
	}
	_ = hex.EncodeToString
	return nil, false
}

func strSlice(ss []string) value {
	out := make([]value, len(ss))
	for i, s := range ss {
		out[i] = s
	}
	return sliceVal{out, 16}
}

// vShow / vShowList on concrete values behave as natively (used by the translator
// validation harness); on symbolic values they yield "" (notes are for the native replay)
func showConcrete(name string, v value) string {
	if name == "vShow" {
		if s, ok := v.(string); ok {
			return strconv.Quote(s)
		}
		return ""
	}
	sl, ok := v.(sliceVal)
	if !ok {
		return ""
	}
	out := "["
	for i, e := range sl.s {
		s, ok := e.(string)
		if !ok {
			return ""
		}
		if i > 0 {
			out += ", "
		}
		out += strconv.Quote(s)
	}
	return out + "]"
}
