package main

// Environment models (DESIGN.md §3.7) and the harness primitives.

import (
	"encoding/hex"
	"fmt"
	"go/token"
	"go/types"
	"regexp"
	"strconv"
	"strings"
	"unicode"
	"unicode/utf8"

	"golang.org/x/tools/go/ssa"
)

var errType = types.Universe.Lookup("error").Type()

func mkError(msg value) value { return iface{t: errType, v: errString{msg}} }

func concreteStr(v value) (string, bool) {
	s, ok := v.(string)
	return s, ok
}

func strPred2(a, b value, conc func(a, b string) bool, sym func(a, b value) value) value {
	if isSym(a) || isSym(b) {
		return sym(a, b)
	}
	if ta, ok := a.(*tab); ok {
		if tb, ok2 := b.(*tab); ok2 && ta.v != tb.v {
			if r := sym(a, b); r != nil {
				return r
			}
		}
	}
	return lift2(a, b, func(a, b value) value { return conc(a.(string), b.(string)) })
}

func intrinsic(name string, fn *ssa.Function, args []value, free []value) (value, bool) {
	switch name {
	case "errors.New":
		return mkError(args[0]), true
	case "strings.HasPrefix":
		return strPred2(args[0], args[1], strings.HasPrefix, func(s, p value) value {
			return liftU2(s, p, func(s, p value) value {
				sb, pb := toBytes(s), toBytes(p)
				if len(pb) > len(sb) {
					return false
				}
				return strEq(fromBytes(sb[:len(pb)]), p)
			})
		}), true
	case "strings.HasSuffix":
		return strPred2(args[0], args[1], strings.HasSuffix, func(s, p value) value {
			return liftU2(s, p, func(s, p value) value {
				sb, pb := toBytes(s), toBytes(p)
				if len(pb) > len(sb) {
					return false
				}
				return strEq(fromBytes(sb[len(sb)-len(pb):]), p)
			})
		}), true
	case "strings.EqualFold":
		if ta, ok := args[0].(*tab); ok {
			if tb, ok2 := args[1].(*tab); ok2 && ta.v != tb.v {
				return twoVar(token.EQL, ta, tb, true), true
			}
		}
		if isSym(args[0]) || isSym(args[1]) {
			return strFoldEq(args[0], args[1]), true
		}
		return lift2(args[0], args[1], func(a, b value) value { return strings.EqualFold(a.(string), b.(string)) }), true
	case "strings.ToLower", "strings.ToUpper":
		up := name == "strings.ToUpper"
		if isSym(args[0]) {
			return liftU(args[0], func(s value) value {
				b := toBytes(s)
				requireASCII(b)
				out := make([]value, len(b))
				for i, e := range b {
					switch c := e.(type) {
					case int64:
						if up && c >= 'a' && c <= 'z' || !up && c >= 'A' && c <= 'Z' {
							c ^= 0x20
						}
						out[i] = c
					case *term:
						lo, hi := int64('A'), int64('Z')
						if up {
							lo, hi = 'a', 'z'
						}
						flipped := &term{op: "raw", w: 8, str: "(bvxor " + c.String() + " #x20)"}
						out[i] = mkIte(rngTerm(c, lo, hi), flipped, c)
					}
				}
				return fromBytes(out)
			}), true
		}
		return lift1(args[0], func(a value) value {
			if up {
				return strings.ToUpper(a.(string))
			}
			return strings.ToLower(a.(string))
		}), true
	case "strings.TrimSpace", "strings.TrimRight", "strings.TrimLeft", "strings.Trim":
		if !isSym(args[0]) {
			break
		}
		cut := " \t\n\v\f\r"
		if name != "strings.TrimSpace" {
			c, ok := concretize(args[1]).(string)
			if !ok {
				panic(unsupported{"Trim with a symbolic cutset"})
			}
			cut = c
		}
		for i := 0; i < len(cut); i++ {
			if cut[i] >= 0x80 {
				panic(unsupported{"Trim with a non-ASCII cutset"})
			}
		}
		inCut := func(b value) value {
			if c, ok := b.(int64); ok {
				return strings.IndexByte(cut, byte(c)) >= 0
			}
			t := b.(*term)
			var ds []*term
			for i := 0; i < len(cut); i++ {
				ds = append(ds, mkEq(t, bvConst(int64(cut[i]), 8)))
			}
			if name == "strings.TrimSpace" {
				// U+0085 and U+00A0 are multi-byte in UTF-8; a lone byte >= 0x80 is never space
				_ = t
			}
			return boolVal(mkOr(ds...))
		}
		return liftU(args[0], func(sv value) value {
			b := toBytes(sv)
			if name == "strings.TrimSpace" {
				for _, e := range b {
					if t, ok := e.(*term); ok && !t.isConst() && !iteConsts(t) {
						// non-ASCII white space (U+0085, U+00A0, U+2000..) needs multi-byte
						// sequences: require ASCII on symbolic bytes, else inconclusive
						if !impliedByPC(isASCIITerm(t)) && !branch(boolVal(isASCIITerm(t))) {
							panic(unsupported{"TrimSpace on a possibly non-ASCII symbolic byte"})
						}
					}
				}
			}
			lo, hi := 0, len(b)
			if name != "strings.TrimRight" {
				for lo < hi && branch(inCut(b[lo])) {
					lo++
				}
			}
			if name != "strings.TrimLeft" {
				for hi > lo && branch(inCut(b[hi-1])) {
					hi--
				}
			}
			return fromBytes(b[lo:hi])
		}), true
	case "strings.TrimSuffix", "strings.TrimPrefix", "strings.CutSuffix", "strings.CutPrefix":
		suffix := strings.HasSuffix(name, "Suffix")
		cut := strings.HasPrefix(name, "strings.Cut")
		one := func(sv, pv value) value {
			sb, pb := toBytes(sv), toBytes(pv)
			has := false
			if len(pb) <= len(sb) {
				if suffix {
					has = branch(strEq(fromBytes(sb[len(sb)-len(pb):]), pv))
				} else {
					has = branch(strEq(fromBytes(sb[:len(pb)]), pv))
				}
			}
			res := sv
			if has {
				if suffix {
					res = fromBytes(sb[:len(sb)-len(pb)])
				} else {
					res = fromBytes(sb[len(pb):])
				}
			}
			if cut {
				return tuple{res, has}
			}
			return res
		}
		a0, a1 := args[0], args[1]
		if !isSym(a0) && !isSym(a1) {
			// concrete or tables: map natively
			r := lift2(a0, a1, func(x, y value) value {
				xs, ys := x.(string), y.(string)
				var res string
				var found bool
				if suffix {
					res, found = strings.CutSuffix(xs, ys)
				} else {
					res, found = strings.CutPrefix(xs, ys)
				}
				if cut {
					return tuple{res, found}
				}
				return res
			})
			return transpose(r), true
		}
		if t, ok := a0.(*tab); ok {
			a0 = concretize(t)
		}
		if t, ok := a1.(*tab); ok {
			a1 = concretize(t)
		}
		return one(splitUnion(a0), splitUnion(a1)), true
	case "strings.IndexFunc", "strings.LastIndexFunc", "strings.ContainsFunc":
		cl, ok := args[1].(*closure)
		if !ok || cl == nil {
			panic(unsupported{name + " with a non-closure predicate"})
		}
		pred := func(r value) bool { return branch(call(cl.fn, []value{r}, cl.env)) }
		res := func(i int) value {
			if name == "strings.ContainsFunc" {
				return i >= 0
			}
			return int64(i)
		}
		one := func(sv value) value {
			if str, isStr := sv.(string); isStr {
				if name == "strings.LastIndexFunc" {
					last := -1
					for i, r := range str {
						if pred(int64(r)) {
							last = i
						}
					}
					return res(last)
				}
				for i, r := range str {
					if pred(int64(r)) {
						return res(i)
					}
				}
				return res(-1)
			}
			// symbolic bytes: ASCII only (a byte >= 0x80 would start a multi-byte rune)
			b := toBytes(sv)
			requireASCII(b)
			if name == "strings.LastIndexFunc" {
				for i := len(b) - 1; i >= 0; i-- {
					if pred(b[i]) {
						return res(i)
					}
				}
				return res(-1)
			}
			for i := range b {
				if pred(b[i]) {
					return res(i)
				}
			}
			return res(-1)
		}
		a0 := args[0]
		if t, isT := a0.(*tab); isT {
			return lift1(t, one), true
		}
		return one(splitUnion(a0)), true
	case "regexp.Compile", "regexp.MustCompile":
		p, ok := concretize(args[0]).(string)
		if !ok {
			panic(unsupported{"regexp with a symbolic pattern"})
		}
		var rv value = compileRegex(p)
		if _, err := regexp.Compile(p); err != nil {
			if name == "regexp.MustCompile" {
				panic(rtp("regexp.MustCompile: " + err.Error()))
			}
			return tuple{(*value)(nil), mkError(err.Error())}, true
		}
		if name == "regexp.MustCompile" {
			return &rv, true
		}
		return tuple{&rv, iface{}}, true
	case "(*regexp.Regexp).FindStringIndex", "(*regexp.Regexp).MatchString", "(*regexp.Regexp).FindString":
		rp, _ := args[0].(*value)
		if rp == nil {
			panic(rtp("nil pointer dereference"))
		}
		r := (*rp).(regexObj)
		subj := args[1]
		if t, ok := subj.(*tab); ok {
			subj = concretize(t)
		}
		subj = splitUnion(subj)
		short := name[strings.LastIndex(name, ".")+1:]
		if s, ok := subj.(string); ok {
			re := regexp.MustCompile(r.pattern)
			switch short {
			case "FindStringIndex":
				loc := re.FindStringIndex(s)
				if loc == nil {
					return sliceVal{nil, 8}, true
				}
				return sliceVal{[]value{int64(loc[0]), int64(loc[1])}, 8}, true
			case "MatchString":
				return re.MatchString(s), true
			case "FindString":
				return re.FindString(s), true
			}
		}
		if r.native {
			panic(unsupported{"regexp pattern outside the symbolic model: " + r.pattern})
		}
		loc := findStringIndexSym(r, subj).(sliceVal)
		switch short {
		case "FindStringIndex":
			return loc, true
		case "MatchString":
			return loc.s != nil, true
		case "FindString":
			if loc.s == nil {
				return "", true
			}
			return fromBytes(toBytes(subj)[loc.s[0].(int64):loc.s[1].(int64)]), true
		}
	case "fmt.Sprintf":
		return sprintf(args[0], args[1].(sliceVal).s), true
	case "fmt.Errorf":
		return mkError(sprintf(args[0], args[1].(sliceVal).s)), true
	case "fmt.Sprint":
		return sprintf("%v", args[0].(sliceVal).s), true
	case "fmt.Println", "fmt.Printf", "fmt.Print", "log.Println", "log.Printf", "log.Print", "log.Fatal", "log.Fatalf",
		"fmt.Fprintf", "fmt.Fprintln", "fmt.Fprint", "(*os.File).Write", "(*os.File).WriteString":
		rs.outputs = append(rs.outputs, name)
		if strings.HasPrefix(name, "log.Fatal") {
			panic(rtp("log.Fatal"))
		}
		return tuple{int64(0), iface{}}, true
	case "sort.Slice", "sort.SliceStable":
		sl, ok := args[0].(iface).v.(sliceVal)
		if !ok {
			panic(unsupported{"sort.Slice of " + describe(args[0].(iface).v)})
		}
		cl := args[1].(*closure)
		n := len(sl.s)
		// Go sorts up to 12 elements by insertion sort - modelled exactly. Longer slices use
		// pdqsort; they are modelled by insertion sort as well, which yields the same result
		// whenever the comparator is a consistent strict weak order whose ties are
		// indistinguishable downstream (recorded as an assumption; a counterexample that
		// depends on it would not replay natively and would be reported as inconclusive).
		if n > 12 {
			sortAssumed = true
		}
		if n > 64 {
			panic(unwindFail{"sort.Slice with more than 64 elements"})
		}
		less := func(i, j int) bool { return branch(call(cl.fn, []value{int64(i), int64(j)}, cl.env)) }
		for i := 1; i < n; i++ {
			for j := i; j > 0 && less(j, j-1); j-- {
				sl.s[j], sl.s[j-1] = sl.s[j-1], sl.s[j]
			}
		}
		return nil, true
	case "(*sync.Mutex).Lock", "(*sync.Mutex).Unlock", "(*sync.RWMutex).Lock", "(*sync.RWMutex).Unlock", "(*sync.RWMutex).RLock", "(*sync.RWMutex).RUnlock":
		// sequential semantics: the engine explores one call at a time; the use of a lock is
		// recorded so that purity checks confirm the concurrent behaviour natively
		syncUses[name] = true
		return nil, true
	case "(*sync.WaitGroup).Add", "(*sync.WaitGroup).Done":
		syncUses[name] = true
		return nil, true
	case "(*sync.WaitGroup).Wait":
		syncUses[name] = true
		runPendingGoroutines()
		return nil, true
	case "(*sync.Mutex).TryLock", "(*sync.RWMutex).TryLock":
		syncUses[name] = true
		return true, true
	case "(*sync.Once).Do":
		syncUses[name] = true
		key, _ := args[0].(*value)
		if key == nil {
			panic(rtp("nil pointer dereference"))
		}
		if !onceDone[key] {
			onceDone[key] = true
			if cl, ok := args[1].(*closure); ok && cl != nil {
				// one-time initialisation: stores to package-level state inside are idempotent
				// set-up, not a frame breach of the calling function
				inOnce++
				func() {
					defer func() { inOnce-- }()
					call(cl.fn, nil, cl.env)
				}()
			}
		}
		return nil, true
	case "(*sync.Map).Load", "(*sync.Map).Store", "(*sync.Map).LoadOrStore", "(*sync.Map).Delete", "(*sync.Map).LoadAndDelete":
		syncUses[name] = true
		key, _ := args[0].(*value)
		if key == nil {
			panic(rtp("nil pointer dereference"))
		}
		m := syncMaps[key]
		if m == nil {
			m = &mapVal{}
			syncMaps[key] = m
		}
		find := func(k value) int {
			kv := k.(iface).v
			if t, ok := kv.(*tab); ok {
				kv = concretize(t)
			}
			if u, ok := kv.(*union); ok {
				kv = splitUnion(u)
			}
			for i, kk := range m.keys {
				if keyEq(kk, kv) {
					return i
				}
			}
			return -1
		}
		keyOf := func(k value) value {
			kv := k.(iface).v
			if t, ok := kv.(*tab); ok {
				kv = concretize(t)
			}
			if u, ok := kv.(*union); ok {
				kv = splitUnion(u)
			}
			return kv
		}
		short := name[strings.LastIndex(name, ".")+1:]
		if !inInit && inOnce == 0 && short != "Load" {
			globalWrites["sync.Map"] = true
			if rs.noCheck > 0 {
				impureMerge("sync.Map write")
			}
		}
		switch short {
		case "Load":
			if i := find(args[1]); i >= 0 {
				return tuple{m.vals[i], true}, true
			}
			return tuple{iface{}, false}, true
		case "Store":
			if i := find(args[1]); i >= 0 {
				m.vals[i] = args[2]
			} else {
				m.keys = append(m.keys, keyOf(args[1]))
				m.vals = append(m.vals, args[2])
			}
			return nil, true
		case "LoadOrStore":
			if i := find(args[1]); i >= 0 {
				return tuple{m.vals[i], true}, true
			}
			m.keys = append(m.keys, keyOf(args[1]))
			m.vals = append(m.vals, args[2])
			return tuple{args[2], false}, true
		case "Delete", "LoadAndDelete":
			i := find(args[1])
			var old value = iface{}
			if i >= 0 {
				old = m.vals[i]
				m.keys = append(m.keys[:i:i], m.keys[i+1:]...)
				m.vals = append(m.vals[:i:i], m.vals[i+1:]...)
			}
			if short == "Delete" {
				return nil, true
			}
			return tuple{old, i >= 0}, true
		}
	case "(*strings.Builder).Grow", "(*bytes.Buffer).Grow", "(*strings.Builder).Reset", "(*bytes.Buffer).Reset":
		key, _ := args[0].(*value)
		if key == nil {
			panic(rtp("nil pointer dereference"))
		}
		if strings.HasSuffix(name, "Reset") {
			delete(builders, key)
		}
		return nil, true
	case "(*strings.Builder).WriteString", "(*bytes.Buffer).WriteString", "(*strings.Builder).WriteByte", "(*bytes.Buffer).WriteByte",
		"(*strings.Builder).WriteRune", "(*bytes.Buffer).WriteRune", "(*strings.Builder).Write", "(*bytes.Buffer).Write":
		key, _ := args[0].(*value)
		if key == nil {
			panic(rtp("nil pointer dereference"))
		}
		cur, ok := builders[key]
		if !ok {
			cur = ""
		}
		var add value
		var n value
		switch {
		case strings.HasSuffix(name, "WriteString"):
			add = args[1]
			n = strLen(add)
		case strings.HasSuffix(name, "WriteByte"):
			add = fromBytes([]value{args[1]})
		case strings.HasSuffix(name, "WriteRune"):
			r, isC := args[1].(int64)
			if !isC {
				panic(unsupported{"WriteRune of a symbolic rune"})
			}
			add = string(rune(r))
			n = int64(len(string(rune(r))))
		default:
			sl, isS := args[1].(sliceVal)
			if !isS {
				panic(unsupported{"Write of " + describe(args[1])})
			}
			add = fromBytes(append([]value(nil), sl.s...))
			n = int64(len(sl.s))
		}
		builders[key] = strConcat(cur, add)
		if strings.HasSuffix(name, "WriteByte") {
			return iface{}, true
		}
		return tuple{n, iface{}}, true
	case "(*strings.Builder).String", "(*bytes.Buffer).String", "(*strings.Builder).Len", "(*bytes.Buffer).Len", "(*bytes.Buffer).Bytes":
		key, _ := args[0].(*value)
		if key == nil {
			if strings.HasSuffix(name, "String") {
				return "<nil>", true
			}
			panic(rtp("nil pointer dereference"))
		}
		cur, ok := builders[key]
		if !ok {
			cur = ""
		}
		switch {
		case strings.HasSuffix(name, "Len"):
			return strLen(cur), true
		case strings.HasSuffix(name, "Bytes"):
			if u, isU := cur.(*union); isU {
				cur = splitUnion(u)
			}
			return sliceVal{append([]value(nil), toBytes(cur)...), 1}, true
		}
		return cur, true
	case "os.Open":
		name, _ := concretize(args[0]).(string)
		if _, ok := jsonStubs[name]; !ok {
			panic(unsupported{"os.Open of a file without a stub: " + name})
		}
		var f value = stubFile{name}
		return tuple{&f, iface{}}, true
	case "(*os.File).Close":
		return iface{}, true
	case "encoding/json.NewDecoder":
		rd, _ := args[0].(iface)
		fp, _ := rd.v.(*value)
		if fp == nil {
			panic(unsupported{"json.NewDecoder on an unmodelled reader"})
		}
		sf, ok := (*fp).(stubFile)
		if !ok {
			panic(unsupported{"json.NewDecoder on an unmodelled reader"})
		}
		var d value = sf
		return &d, true
	case "(*encoding/json.Decoder).Decode":
		dp, _ := args[0].(*value)
		if dp == nil {
			panic(rtp("nil pointer dereference"))
		}
		sf := (*dp).(stubFile)
		return jsonDecodeStub(jsonStubs[sf.name], args[1].(iface)), true
	case "os.WriteFile":
		name, _ := concretize(args[0]).(string)
		data, ok := args[1].(sliceVal)
		if !ok {
			panic(unsupported{"os.WriteFile data"})
		}
		writtenFiles = append(writtenFiles, writtenFile{name, fromBytes(append([]value(nil), data.s...))})
		return iface{}, true
	case "os.Exit":
		panic(rtp("os.Exit"))
	case "sort.Strings":
		sl := args[0].(sliceVal)
		ss := make([]string, len(sl.s))
		for i, e := range sl.s {
			s, ok := e.(string)
			if !ok {
				panic(unsupported{"sort.Strings on symbolic strings"})
			}
			ss[i] = s
		}
		sortStrings(ss)
		for i := range ss {
			sl.s[i] = ss[i]
		}
		return nil, true
	}
	if fn.Pkg != nil && interpPkgs[fn.Pkg.Pkg.Path()] && strings.HasPrefix(fn.Name(), "v") {
		if r, ok := harnessPrim(fn.Name(), args); ok {
			return r, true
		}
	}
	return nil, false
}

type stubFile struct{ name string }
type jsonStub struct {
	listKey, idKey string
	ids, dep, osi  []value
}
type writtenFile struct {
	name string
	data value
}

var jsonStubs = map[string]*jsonStub{}
var writtenFiles []writtenFile

// json tag name of a struct field as encoding/json sees it
func jsonFieldName(f *types.Var, tag string) (string, bool) {
	if !f.Exported() {
		return "", false
	}
	name := f.Name()
	for _, part := range strings.Fields(tag) {
		if strings.HasPrefix(part, "json:\"") {
			v := strings.TrimSuffix(strings.TrimPrefix(part, "json:\""), "\"")
			v = strings.Split(v, ",")[0]
			if v == "-" {
				return "", false
			}
			if v != "" {
				name = v
			}
		}
	}
	return name, true
}

// field of st that receives JSON key (exact match first, then case-insensitive, as encoding/json)
func jsonField(st *types.Struct, key string) int {
	fold := -1
	for i := 0; i < st.NumFields(); i++ {
		n, ok := jsonFieldName(st.Field(i), st.Tag(i))
		if !ok {
			continue
		}
		if n == key {
			return i
		}
		if fold < 0 && strings.EqualFold(n, key) {
			fold = i
		}
	}
	return fold
}

// Decode stub: fills the pointed-to struct from a structured document whose keys are those
// of the SPDX data files; Go fields are selected by their json tags, read from the SSA types.
func jsonDecodeStub(doc *jsonStub, target iface) value {
	pt, ok := target.t.Underlying().(*types.Pointer)
	if !ok {
		return mkError("json: Unmarshal(non-pointer)")
	}
	st, ok := pt.Elem().Underlying().(*types.Struct)
	if !ok {
		panic(unsupported{"json decode into " + pt.Elem().String()})
	}
	cell := target.v.(*value)
	top := (*cell).(structure)
	if fi := jsonField(st, "licenseListVersion"); fi >= 0 {
		if b, isB := st.Field(fi).Type().Underlying().(*types.Basic); isB && b.Info()&types.IsString != 0 {
			top[fi] = "stub"
		}
	}
	li := jsonField(st, doc.listKey)
	if li < 0 {
		return iface{} // key without a field: silently dropped, as encoding/json does
	}
	slT, ok := st.Field(li).Type().Underlying().(*types.Slice)
	if !ok {
		return mkError("json: cannot unmarshal array into Go struct field")
	}
	est, ok := slT.Elem().Underlying().(*types.Struct)
	if !ok {
		panic(unsupported{"json decode: list element type"})
	}
	elems := make([]value, len(doc.ids))
	for k := range doc.ids {
		e := zero(slT.Elem()).(structure)
		set := func(key string, v value, want types.BasicInfo) {
			fi := jsonField(est, key)
			if fi < 0 {
				return
			}
			b, isB := est.Field(fi).Type().Underlying().(*types.Basic)
			if !isB || b.Info()&want == 0 {
				panic(unsupported{"json decode: type mismatch for key " + key})
			}
			e[fi] = v
		}
		set("reference", "https://spdx.org/licenses/x.html", types.IsString)
		set("detailsUrl", "https://spdx.org/licenses/x.json", types.IsString)
		set("name", "a name", types.IsString)
		set("referenceNumber", int64(k+1), types.IsInteger)
		set(doc.idKey, doc.ids[k], types.IsString)
		set("isDeprecatedLicenseId", doc.dep[k], types.IsBoolean)
		if doc.listKey == "licenses" {
			set("isOsiApproved", doc.osi[k], types.IsBoolean)
		}
		elems[k] = e
	}
	top[li] = sliceVal{elems, sizes.Sizeof(slT.Elem())}
	return iface{}
}

var builders = map[*value]value{}
var sortAssumed bool
var inOnce int
var syncUses = map[string]bool{}
var onceDone = map[*value]bool{}
var syncMaps = map[*value]*mapVal{}

func sortStrings(ss []string) {
	for i := 1; i < len(ss); i++ {
		for j := i; j > 0 && ss[j] < ss[j-1]; j-- {
			ss[j], ss[j-1] = ss[j-1], ss[j]
		}
	}
}

// boolean connective over concrete booleans / tables of the same variable: stays a table
func nativeBool2(name string, a, b value) (value, bool) {
	ok := func(v value) (*cvar, bool) {
		switch x := v.(type) {
		case bool:
			return nil, true
		case *tab:
			return x.v, true
		}
		return nil, false
	}
	va, oka := ok(a)
	vb, okb := ok(b)
	if !oka || !okb || (va != nil && vb != nil && va != vb) {
		return nil, false
	}
	return lift2(a, b, func(x, y value) value {
		p, q := x.(bool), y.(bool)
		switch name {
		case "vAnd":
			return p && q
		case "vOr":
			return p || q
		case "vImplies":
			return !p || q
		}
		return p == q
	}), true
}

func newBoolVar(name string) *term {
	if rs.nBools >= poolBools {
		panic(unsupported{"too many symbolic booleans"})
	}
	t := &term{op: "var", w: 0, name: fmt.Sprintf("m%d", rs.nBools)}
	rs.nBools++
	return t
}

func newByteVar() *term {
	if rs.nBytes >= poolBytes {
		panic(unsupported{"too many symbolic bytes"})
	}
	t := &term{op: "var", w: 8, name: fmt.Sprintf("b%d", rs.nBytes)}
	rs.nBytes++
	return t
}

func harnessPrim(name string, args []value) (value, bool) {
	switch name {
	case "vPickInt":
		lo, hi := args[0].(int64), args[1].(int64)
		return newCVar(lo, hi, args[2].(string)), true
	case "vBytes":
		n := int(concretize(args[0]).(int64))
		rec := nondetRec{Name: args[1].(string), Kind: "bytes"}
		b := make([]value, n)
		for i := range b {
			v := newByteVar()
			rec.bs = append(rec.bs, v)
			b[i] = v
		}
		rs.nondets = append(rs.nondets, rec)
		if n == 0 {
			return "", true
		}
		return symStr{b}, true
	case "vBool":
		v := newBoolVar(args[0].(string))
		rs.nondets = append(rs.nondets, nondetRec{Name: args[0].(string), Kind: "bool", bs: []*term{v}})
		return v, true
	case "vCaseMask":
		src, ok := concretize(args[0]).(string)
		if !ok {
			panic(unsupported{"vCaseMask of a symbolic string"})
		}
		rec := nondetRec{Name: args[1].(string), Kind: "mask", src: src}
		bs := make([]value, len(src))
		for i := 0; i < len(src); i++ {
			c := int64(src[i])
			if isLetter(c) {
				m := newBoolVar("")
				rec.bs = append(rec.bs, m)
				bs[i] = &term{op: "ite", w: 8, args: []*term{m, bvConst(c^0x20, 8), bvConst(c, 8)}}
			} else {
				rec.bs = append(rec.bs, nil)
				bs[i] = c
			}
		}
		rs.nondets = append(rs.nondets, rec)
		return fromBytes(bs), true
	case "vAssume":
		if !branch(args[0]) {
			panic(assumeFail{})
		}
		return nil, true
	case "vAssert":
		doAssert(args[0], args[1].(string))
		return nil, true
	case "vAnd", "vOr", "vImplies", "vIff":
		if r, ok := nativeBool2(name, args[0], args[1]); ok {
			return r, true
		}
		x, y := asBool(args[0]), asBool(args[1])
		switch name {
		case "vAnd":
			return boolVal(mkAnd(x, y)), true
		case "vOr":
			return boolVal(mkOr(x, y)), true
		case "vImplies":
			return boolVal(mkImplies(x, y)), true
		}
		return boolVal(mkIff(x, y)), true
	case "vNot":
		return notVal(args[0]), true
	case "vShow", "vShowList":
		return showConcrete(name, args[0]), true
	case "vIteStr":
		c := args[0]
		if ct, ok := c.(*term); ok {
			return mergeAlts([]alt{{ct, args[1]}, {mkNot(ct), args[2]}}), true
		}
		ab := lift2(args[1], args[2], func(a, b value) value { return tuple{a, b} })
		return lift2(c, ab, func(c, ab value) value {
			if c.(bool) {
				return ab.(tuple)[0]
			}
			return ab.(tuple)[1]
		}), true
	case "vIsIDChar":
		return isIDCharVal(args[0]), true
	case "vConcretize":
		return concretize(args[0]), true
	case "vConcretizeStr":
		v := args[0]
		if t, ok := v.(*tab); ok {
			v = concretize(t)
		}
		return splitUnion(v), true
	case "vReplaying":
		return false, true
	case "vNote":
		if k, ok := args[0].(string); ok {
			if v, ok2 := args[1].(string); ok2 && cur != nil && strings.HasPrefix(k, "eq:") {
				if cur.Notes == nil {
					cur.Notes = map[string]string{}
				}
				cur.Notes[k] = v
			}
		}
		return nil, true
	case "vStrEq":
		return binop(token.EQL, args[0], args[1], nil), true
	case "vStubJSON":
		name := args[0].(string)
		d := &jsonStub{listKey: "licenses", idKey: "licenseId"}
		if strings.HasPrefix(name, "exceptions") {
			d.listKey, d.idKey = "exceptions", "licenseExceptionId"
		}
		d.ids = append(d.ids, args[1].(sliceVal).s...)
		d.dep = append(d.dep, args[2].(sliceVal).s...)
		d.osi = append(d.osi, args[3].(sliceVal).s...)
		jsonStubs[name] = d
		return nil, true
	case "vWrittenCount":
		return int64(len(writtenFiles)), true
	case "vWrittenPath":
		return writtenFiles[args[0].(int64)].name, true
	case "vWrittenData":
		return writtenFiles[args[0].(int64)].data, true
	case "vOutputs":
		return int64(len(rs.outputs)), true
	case "vGlobalWrites":
		return int64(len(globalWrites)), true
	}
	return nil, false
}

// ---------- fmt.Sprintf ----------

func sprintf(format value, args []value) value {
	f, ok := format.(string)
	if !ok {
		panic(unsupported{"symbolic format string"})
	}
	allConc := true
	var nat []interface{}
	for _, a := range args {
		v := a.(iface).v
		switch x := v.(type) {
		case string, bool:
			nat = append(nat, x)
		case int64:
			t := a.(iface).t
			if b, isB := t.Underlying().(*types.Basic); isB && b.Kind() == types.Uint8 {
				nat = append(nat, uint8(x))
			} else if isB && b.Kind() == types.Int32 {
				nat = append(nat, rune(x))
			} else {
				nat = append(nat, int(x))
			}
		case errString:
			if s, isS := x.s.(string); isS {
				nat = append(nat, fmt.Errorf("%s", s))
			} else {
				allConc = false
			}
		default:
			allConc = false
		}
	}
	if allConc {
		return fmt.Sprintf(f, nat...)
	}
	var out value = ""
	ai := 0
	for i := 0; i < len(f); i++ {
		if f[i] != '%' {
			j := i
			for j < len(f) && f[j] != '%' {
				j++
			}
			out = strConcat(out, f[i:j])
			i = j - 1
			continue
		}
		i++
		if i >= len(f) {
			panic(unsupported{"bad format"})
		}
		if f[i] == '%' {
			out = strConcat(out, "%")
			continue
		}
		if ai >= len(args) {
			panic(unsupported{"format: missing argument"})
		}
		a := args[ai].(iface).v
		ai++
		switch f[i] {
		case 's', 'v':
			switch x := a.(type) {
			case string, symStr, *union:
				out = strConcat(out, x)
			case *tab:
				out = strConcat(out, lift1(x, func(e value) value {
					switch y := e.(type) {
					case string:
						return y
					case int64:
						return strconv.FormatInt(y, 10)
					}
					panic(unsupported{"format %s of table element"})
				}))
			case int64:
				out = strConcat(out, strconv.FormatInt(x, 10))
			case errString:
				out = strConcat(out, x.s)
			default:
				panic(unsupported{"format %s of " + describe(a)})
			}
		case 'd':
			switch x := a.(type) {
			case int64:
				out = strConcat(out, strconv.FormatInt(x, 10))
			case *tab:
				out = strConcat(out, lift1(x, func(e value) value { return strconv.FormatInt(e.(int64), 10) }))
			default:
				panic(unsupported{"format %d of " + describe(a)})
			}
		case 'c':
			switch x := a.(type) {
			case int64:
				out = strConcat(out, string(rune(x)))
			case *term:
				if !branch(boolVal(isASCIITerm(x))) {
					panic(unsupported{"%c of a non-ASCII symbolic byte"})
				}
				out = strConcat(out, symStr{[]value{x}})
			default:
				panic(unsupported{"format %c of " + describe(a)})
			}
		default:
			panic(unsupported{"format verb %" + string(f[i]) + " with symbolic argument"})
		}
	}
	return out
}

// ---------- native fallbacks for concrete arguments ----------

func nativeCall(fn *ssa.Function, args []value) (value, bool) {
	name := fnName(fn)
	strs := make([]string, len(args))
	allStr := true
	for i, a := range args {
		if t, ok := a.(*tab); ok {
			a = concretize(t)
			args[i] = a
		}
		if u, ok := a.(*union); ok {
			a = splitUnion(u)
			args[i] = a
		}
		s, ok := a.(string)
		if !ok {
			allStr = false
		}
		strs[i] = s
	}
	if allStr {
		switch name {
		case "strings.Contains":
			return strings.Contains(strs[0], strs[1]), true
		case "strings.Index":
			return int64(strings.Index(strs[0], strs[1])), true
		case "strings.LastIndex":
			return int64(strings.LastIndex(strs[0], strs[1])), true
		case "strings.TrimSpace":
			return strings.TrimSpace(strs[0]), true
		case "strings.TrimPrefix":
			return strings.TrimPrefix(strs[0], strs[1]), true
		case "strings.TrimSuffix":
			return strings.TrimSuffix(strs[0], strs[1]), true
		case "strings.Trim":
			return strings.Trim(strs[0], strs[1]), true
		case "strings.TrimLeft":
			return strings.TrimLeft(strs[0], strs[1]), true
		case "strings.TrimRight":
			return strings.TrimRight(strs[0], strs[1]), true
		case "strings.Title":
			return strings.Title(strs[0]), true
		case "strings.Count":
			return int64(strings.Count(strs[0], strs[1])), true
		case "strings.Compare":
			return int64(strings.Compare(strs[0], strs[1])), true
		case "strings.Fields":
			return strSlice(strings.Fields(strs[0])), true
		case "strings.Split":
			return strSlice(strings.Split(strs[0], strs[1])), true
		case "strconv.Atoi":
			n, err := strconv.Atoi(strs[0])
			if err != nil {
				return tuple{int64(0), mkError(err.Error())}, true
			}
			return tuple{int64(n), iface{}}, true
		case "strconv.Quote":
			return strconv.Quote(strs[0]), true
		case "encoding/hex.EncodeToString":
		}
	}
	switch name {
	case "strings.Repeat":
		if s, ok := args[0].(string); ok {
			return strings.Repeat(s, int(args[1].(int64))), true
		}
	case "strings.ReplaceAll":
		if allStr {
			return strings.ReplaceAll(strs[0], strs[1], strs[2]), true
		}
	case "strings.Replace":
		if s, ok := args[0].(string); ok {
			return strings.Replace(s, args[1].(string), args[2].(string), int(args[3].(int64))), true
		}
	case "strings.Join":
		if sl, ok := args[0].(sliceVal); ok {
			var out value = ""
			sep := args[1]
			for i, e := range sl.s {
				if i > 0 {
					out = strConcat(out, sep)
				}
				out = strConcat(out, e)
			}
			return out, true
		}
	case "strconv.Itoa":
		if n, ok := args[0].(int64); ok {
			return strconv.Itoa(int(n)), true
		}
	case "strings.IndexByte":
		if s, ok := args[0].(string); ok {
			return int64(strings.IndexByte(s, byte(args[1].(int64)))), true
		}
	case "unicode.IsLetter", "unicode.IsDigit", "unicode.IsSpace", "unicode.IsUpper", "unicode.IsLower", "unicode.IsNumber", "unicode.IsPunct":
		if r, ok := args[0].(int64); ok {
			switch name {
			case "unicode.IsLetter":
				return unicode.IsLetter(rune(r)), true
			case "unicode.IsDigit":
				return unicode.IsDigit(rune(r)), true
			case "unicode.IsSpace":
				return unicode.IsSpace(rune(r)), true
			case "unicode.IsUpper":
				return unicode.IsUpper(rune(r)), true
			case "unicode.IsLower":
				return unicode.IsLower(rune(r)), true
			case "unicode.IsNumber":
				return unicode.IsNumber(rune(r)), true
			case "unicode.IsPunct":
				return unicode.IsPunct(rune(r)), true
			}
		}
	case "unicode.ToLower", "unicode.ToUpper":
		if r, ok := args[0].(int64); ok {
			if name == "unicode.ToLower" {
				return int64(unicode.ToLower(rune(r))), true
			}
			return int64(unicode.ToUpper(rune(r))), true
		}
	case "unicode/utf8.DecodeRuneInString":
		if s, ok := args[0].(string); ok {
			r, n := utf8.DecodeRuneInString(s)
			return tuple{int64(r), int64(n)}, true
		}
	case "unicode/utf8.RuneCountInString":
		if s, ok := args[0].(string); ok {
			return int64(utf8.RuneCountInString(s)), true
		}
	case "unicode/utf8.ValidString":
		if s, ok := args[0].(string); ok {
			return utf8.ValidString(s), true
		}
	}
	_ = hex.EncodeToString
	return nil, false
}

func strSlice(ss []string) value {
	out := make([]value, len(ss))
	for i, s := range ss {
		out[i] = s
	}
	return sliceVal{out, 16}
}

// vShow / vShowList on concrete values behave as natively (used by the translator
// validation harness); on symbolic values they yield "" (notes are for the native replay)
func showConcrete(name string, v value) string {
	if name == "vShow" {
		if s, ok := v.(string); ok {
			return strconv.Quote(s)
		}
		return ""
	}
	sl, ok := v.(sliceVal)
	if !ok {
		return ""
	}
	out := "["
	for i, e := range sl.s {
		s, ok := e.(string)
		if !ok {
			return ""
		}
		if i > 0 {
			out += ", "
		}
		out += strconv.Quote(s)
	}
	return out + "]"
}
