package main

// Finite-domain choice variables and tables over them.

import (
	"fmt"
	"go/token"
	"sort"
	"strings"
)

func cvTerm(v *cvar) *term { return &term{op: "var", w: cvWidth, name: fmt.Sprintf("cv%d", v.id)} }

func newCVar(lo, hi int64, name string) value {
	size := int(hi - lo + 1)
	if size <= 0 {
		panic(assumeFail{})
	}
	if size > 1<<cvWidth {
		panic(unsupported{fmt.Sprintf("choice variable %s with %d values", name, size)})
	}
	v := &cvar{id: len(rs.vars), size: size, lo: lo, name: name}
	if v.id >= poolCVs {
		panic(unsupported{"too many choice variables"})
	}
	rs.vars = append(rs.vars, v)
	rs.related = append(rs.related, false)
	rs.nondets = append(rs.nondets, nondetRec{Name: name, Kind: "int", cv: v})
	d := make([]bool, size)
	vals := make([]value, size)
	for i := range d {
		d[i] = true
		vals[i] = lo + int64(i)
	}
	rs.domains = append(rs.domains, d)
	assertPC(mkCmp("ult", cvTerm(v), bvConst(int64(size), cvWidth)))
	if v.id < len(rs.initDoms) && rs.initDoms[v.id] != nil {
		d = rs.initDoms[v.id]
		rs.domains[v.id] = d
		assertPC(&term{op: "dom", args: []*term{inSet(v, d)}})
	}
	return simplify(&tab{v, vals})
}

// balanced ite tree over the bits of v mapping index -> keys[i]; indices outside dom are don't-care
func iteTree(v *cvar, dom []bool, keys []int64, w int) *term {
	vt := cvTerm(v)
	var rec func(lo, hi, bit int) *term
	rec = func(lo, hi, bit int) *term {
		first, have, uniform := int64(0), false, true
		for i := lo; i < hi && i < len(dom); i++ {
			if dom[i] {
				if !have {
					first, have = keys[i], true
				} else if keys[i] != first {
					uniform = false
					break
				}
			}
		}
		if !have {
			return nil
		}
		if uniform {
			return bvConst(first, w)
		}
		mid := (lo + hi) / 2
		l, r := rec(lo, mid, bit-1), rec(mid, hi, bit-1)
		if l == nil {
			return r
		}
		if r == nil {
			return l
		}
		c := &term{op: "bit0", args: []*term{vt}, val: int64(bit)}
		return &term{op: "ite", w: w, args: []*term{c, l, r}}
	}
	t := rec(0, 1<<cvWidth, cvWidth-1)
	if t == nil {
		return bvConst(0, w)
	}
	return t
}

func inSet(v *cvar, set []bool) *term {
	keys := make([]int64, len(set))
	all := make([]bool, len(set))
	n := 0
	for i, b := range set {
		all[i] = true
		if b {
			keys[i] = 1
			n++
		}
	}
	if n == len(set) {
		return tTrue
	}
	t := iteTree(v, all, keys, 1)
	rng := mkCmp("ult", cvTerm(v), bvConst(int64(len(set)), cvWidth))
	return mkAnd(rng, mkEq(t, bvConst(1, 1)))
}

// Bool tab -> term
func tabBoolTerm(t *tab) *term {
	d := rs.dom(t.v)
	keys := make([]int64, len(d))
	for i, b := range d {
		if b && t.vals[i].(bool) {
			keys[i] = 1
		}
	}
	return mkEq(iteTree(t.v, d, keys, 1), bvConst(1, 1))
}

func firstLive(t *tab, d []bool) value {
	for i, l := range d {
		if l {
			return t.vals[i]
		}
	}
	return nil
}

func simplify(t *tab) value {
	d := rs.dom(t.v)
	// an entry that is itself a table over the same variable denotes its own i-th entry
	for i, b := range d {
		if b {
			if inner, ok := t.vals[i].(*tab); ok && inner.v.id == t.v.id && i < len(inner.vals) {
				t.vals[i] = inner.vals[i]
			}
		}
	}
	var first value
	n := 0
	for i, b := range d {
		if b {
			if n == 0 {
				first = t.vals[i]
			} else if !eqConc(first, t.vals[i]) {
				return t
			}
			n++
		}
	}
	if n > 0 {
		switch first.(type) {
		case bool, int64, string, *value, nil:
			return first
		}
	}
	return t
}

// concretise a table value by forking over its distinct values
func concretize(c value) value {
	x, ok := c.(*tab)
	if !ok {
		return c
	}
	d := rs.dom(x.v)
	var alts [][]bool
	var reps []value
	for i, l := range d {
		if !l {
			continue
		}
		found := false
		for k, r := range reps {
			if eqConc(r, x.vals[i]) {
				alts[k][i] = true
				found = true
				break
			}
		}
		if !found {
			a := make([]bool, len(d))
			a[i] = true
			alts = append(alts, a)
			reps = append(reps, x.vals[i])
		}
	}
	if len(alts) == 0 {
		panic(infeasiblePath{})
	}
	choose(x.v, alts)
	for k, a := range alts {
		if sameDom(a, rs.domains[x.v.id]) {
			return reps[k]
		}
	}
	panic(engineError{"concretize: chosen domain not found"})
}

func lift1(a value, f func(value) value) value {
	if t, ok := a.(*tab); ok {
		d := rs.dom(t.v)
		out := make([]value, len(t.vals))
		for i, b := range d {
			if b {
				out[i] = f(t.vals[i])
			}
		}
		return simplify(&tab{t.v, out})
	}
	return f(a)
}

func lift2(a, b value, f func(a, b value) value) value {
	ta, oka := a.(*tab)
	tb, okb := b.(*tab)
	switch {
	case oka && okb:
		if ta.v != tb.v {
			b = concretize(b)
			return lift2(a, b, f)
		}
		d := rs.dom(ta.v)
		out := make([]value, len(ta.vals))
		for i, l := range d {
			if l {
				out[i] = f(ta.vals[i], tb.vals[i])
			}
		}
		return simplify(&tab{ta.v, out})
	case oka:
		return lift1(a, func(x value) value { return f(x, b) })
	case okb:
		return lift1(b, func(y value) value { return f(a, y) })
	}
	return f(a, b)
}

// a table of structs becomes a struct of tables
func transpose(v value) value {
	t, ok := v.(*tab)
	if !ok {
		return v
	}
	d := rs.dom(t.v)
	switch st := firstLive(t, d).(type) {
	case structure:
		out := make(structure, len(st))
		for f := range st {
			vals := make([]value, len(t.vals))
			for i, l := range d {
				if l {
					vals[i] = t.vals[i].(structure)[f]
				}
			}
			out[f] = transpose(simplify(&tab{t.v, vals}))
		}
		return out
	case tuple:
		out := make(tuple, len(st))
		for f := range st {
			vals := make([]value, len(t.vals))
			for i, l := range d {
				if l {
					vals[i] = t.vals[i].(tuple)[f]
				}
			}
			out[f] = transpose(simplify(&tab{t.v, vals}))
		}
		return out
	}
	return v
}

func allASCII(s string) bool {
	for i := 0; i < len(s); i++ {
		if s[i] >= 0x80 {
			return false
		}
	}
	return true
}

// relation between two tables over different variables, via integer keys
// are all live entries of t of the same scalar kind as its first live entry?
func uniformScalar(t *tab, d []bool) bool {
	kind := -1
	for i, l := range d {
		if !l {
			continue
		}
		k := -1
		switch t.vals[i].(type) {
		case string:
			k = 0
		case int64:
			k = 1
		case bool:
			k = 2
		case *value:
			k = 3
		}
		if k < 0 || (kind >= 0 && k != kind) {
			return false
		}
		kind = k
	}
	return true
}

func twoVar(op token.Token, a, b *tab, fold bool) value {
	da, db := rs.dom(a.v), rs.dom(b.v)
	if !uniformScalar(a, da) || !uniformScalar(b, db) {
		return nil // nested tables or mixed kinds: the caller falls back to forking
	}
	switch firstLive(a, da).(type) {
	case string:
		if _, ok := firstLive(b, db).(string); !ok {
			return nil
		}
	case int64:
		if _, ok := firstLive(b, db).(int64); !ok {
			return nil
		}
	}
	ka, kb := make([]int64, len(da)), make([]int64, len(db))
	const W = 16
	switch firstLive(a, da).(type) {
	case string:
		set := map[string]bool{}
		norm := func(s string) string {
			if fold {
				if !allASCII(s) {
					panic(unsupported{"EqualFold on non-ASCII table string"})
				}
				return strings.ToLower(s)
			}
			return s
		}
		for i, l := range da {
			if l {
				set[norm(a.vals[i].(string))] = true
			}
		}
		for i, l := range db {
			if l {
				set[norm(b.vals[i].(string))] = true
			}
		}
		all := make([]string, 0, len(set))
		for s := range set {
			all = append(all, s)
		}
		sort.Strings(all)
		rank := make(map[string]int64, len(all))
		for i, s := range all {
			rank[s] = int64(i)
		}
		for i, l := range da {
			if l {
				ka[i] = rank[norm(a.vals[i].(string))]
			}
		}
		for i, l := range db {
			if l {
				kb[i] = rank[norm(b.vals[i].(string))]
			}
		}
	case int64:
		mn := int64(1 << 62)
		mx := int64(-1 << 62)
		for i, l := range da {
			if l {
				x := a.vals[i].(int64)
				if x < mn {
					mn = x
				}
				if x > mx {
					mx = x
				}
			}
		}
		for i, l := range db {
			if l {
				x := b.vals[i].(int64)
				if x < mn {
					mn = x
				}
				if x > mx {
					mx = x
				}
			}
		}
		if mx-mn >= 1<<W {
			return nil
		}
		for i, l := range da {
			if l {
				ka[i] = a.vals[i].(int64) - mn
			}
		}
		for i, l := range db {
			if l {
				kb[i] = b.vals[i].(int64) - mn
			}
		}
	case bool:
		x, y := tabBoolTerm(a), tabBoolTerm(b)
		rs.related[a.v.id], rs.related[b.v.id] = true, true
		return symBinop(op, boolVal(x), boolVal(y))
	case *value:
		if op != token.EQL && op != token.NEQ {
			return nil
		}
		ids := map[*value]int64{}
		key := func(p value) int64 {
			q := p.(*value)
			if k, ok := ids[q]; ok {
				return k
			}
			ids[q] = int64(len(ids))
			return ids[q]
		}
		for i, l := range da {
			if l {
				ka[i] = key(a.vals[i])
			}
		}
		for i, l := range db {
			if l {
				kb[i] = key(b.vals[i])
			}
		}
	default:
		return nil
	}
	x, y := iteTree(a.v, da, ka, W), iteTree(b.v, db, kb, W)
	stats.twoVar++
	rs.related[a.v.id], rs.related[b.v.id] = true, true
	switch op {
	case token.EQL:
		return boolVal(mkEq(x, y))
	case token.NEQ:
		return boolVal(mkNot(mkEq(x, y)))
	case token.LSS:
		return boolVal(mkCmp("ult", x, y))
	case token.LEQ:
		return boolVal(mkCmp("ule", x, y))
	case token.GTR:
		return boolVal(mkCmp("ult", y, x))
	case token.GEQ:
		return boolVal(mkCmp("ule", y, x))
	}
	return nil
}
