package main

// Symbolic strings (concrete length, symbolic bytes), guarded unions, byte-class predicates,
// and the model of the two regular expressions the scanner uses.

import (
	"fmt"
	"go/token"
	"regexp/syntax"
	"strings"
)

func isSym(v value) bool {
	switch v.(type) {
	case *term, symStr, *union:
		return true
	}
	return false
}

func asBV8(v value) *term {
	switch x := v.(type) {
	case int64:
		return bvConst(x&0xff, 8)
	case *term:
		return x
	}
	panic(unsupported{fmt.Sprintf("asBV8 %T", v)})
}

func asBool(v value) *term {
	switch x := v.(type) {
	case *tab:
		return tabBoolTerm(x)
	case bool:
		return boolConst(x)
	case *term:
		if x.w != 0 {
			panic(unsupported{"bit-vector used as Bool"})
		}
		return x
	}
	panic(unsupported{fmt.Sprintf("asBool %T", v)})
}

func boolVal(t *term) value {
	if t.isConst() {
		return t.val == 1
	}
	return t
}

func toBytes(v value) []value {
	switch x := v.(type) {
	case string:
		out := make([]value, len(x))
		for i := 0; i < len(x); i++ {
			out[i] = int64(x[i])
		}
		return out
	case symStr:
		return x.b
	}
	panic(unsupported{fmt.Sprintf("toBytes %s", describe(v))})
}

func fromBytes(b []value) value {
	for _, e := range b {
		if t, ok := e.(*term); ok {
			if t.isConst() {
				continue
			}
			return symStr{b}
		}
	}
	bs := make([]byte, len(b))
	for i, e := range b {
		switch x := e.(type) {
		case int64:
			bs[i] = byte(x)
		case *term:
			bs[i] = byte(x.val)
		}
	}
	return string(bs)
}

// apply f to every alternative of a union (or directly); results merged
func liftU(v value, f func(value) value) value {
	if t, ok := v.(*tab); ok {
		// a table meeting symbolic data: fork over its values
		v = concretize(t)
	}
	u, ok := v.(*union)
	if !ok {
		return f(v)
	}
	out := make([]alt, 0, len(u.alts))
	for _, a := range u.alts {
		r, p := applyAlt(f, a.v)
		if p != nil {
			// the operation fails at run time on this alternative: if the alternative is
			// feasible the path splits (and panics on that side); a dead alternative is dropped
			if branch(boolVal(a.g)) {
				panic(*p)
			}
			continue
		}
		out = append(out, alt{a.g, r})
	}
	if len(out) == 0 {
		panic(infeasiblePath{})
	}
	return mergeAlts(out)
}

func applyAlt(f func(value) value, v value) (r value, p *rtPanic) {
	defer func() {
		if e := recover(); e != nil {
			if rp, ok := e.(rtPanic); ok {
				p = &rp
				return
			}
			panic(e)
		}
	}()
	return f(v), nil
}

func liftU2(a, b value, f func(a, b value) value) value {
	return liftU(a, func(x value) value { return liftU(b, func(y value) value { return f(x, y) }) })
}

// merge guarded values into one value
func mergeAlts(alts []alt) value {
	if len(alts) == 0 {
		panic(unsupported{"merge of zero alternatives"})
	}
	var flat []alt
	for _, a := range alts {
		if u, ok := a.v.(*union); ok {
			for _, b := range u.alts {
				flat = append(flat, alt{mkAnd(a.g, b.g), b.v})
			}
		} else {
			flat = append(flat, a)
		}
	}
	alts = flat
	same := true
	for _, a := range alts[1:] {
		if !eqConc(alts[0].v, a.v) {
			same = false
			break
		}
	}
	if same {
		switch alts[0].v.(type) {
		case bool, int64, string, *value, nil:
			return alts[0].v
		}
	}
	if t0, ok := alts[0].v.(*term); ok && t0.w == 8 {
		allB := true
		for _, a := range alts {
			switch x := a.v.(type) {
			case int64:
				if x < 0 || x > 255 {
					allB = false
				}
			case *term:
				if x.w != 8 {
					allB = false
				}
			default:
				allB = false
			}
		}
		if allB {
			t := asBV8(alts[len(alts)-1].v)
			for i := len(alts) - 2; i >= 0; i-- {
				t = mkIte(alts[i].g, asBV8(alts[i].v), t)
			}
			return t
		}
	}
	switch alts[0].v.(type) {
	case bool, *term, *tab:
		isBool := true
		for _, a := range alts {
			switch x := a.v.(type) {
			case bool:
			case *term:
				if x.w != 0 {
					isBool = false
				}
			case *tab:
				if !isBoolish(x) {
					isBool = false
				}
			default:
				isBool = false
			}
		}
		if isBool {
			ds := make([]*term, 0, len(alts))
			for _, a := range alts {
				ds = append(ds, mkAnd(a.g, asBool(a.v)))
			}
			return boolVal(mkOr(ds...))
		}
	case int64:
		// bytes: if-then-else chain
		isByte := true
		for _, a := range alts {
			switch x := a.v.(type) {
			case int64:
				if x < 0 || x > 255 {
					isByte = false
				}
			case *term:
				if x.w != 8 {
					isByte = false
				}
			default:
				isByte = false
			}
		}
		if isByte {
			t := asBV8(alts[len(alts)-1].v)
			for i := len(alts) - 2; i >= 0; i-- {
				t = mkIte(alts[i].g, asBV8(alts[i].v), t)
			}
			return t
		}
	case tuple:
		n := len(alts[0].v.(tuple))
		out := make(tuple, n)
		for i := 0; i < n; i++ {
			col := make([]alt, 0, len(alts))
			for _, a := range alts {
				col = append(col, alt{a.g, a.v.(tuple)[i]})
			}
			out[i] = mergeAlts(col)
		}
		return out
	}
	var grouped []alt
	for _, a := range alts {
		found := false
		switch a.v.(type) {
		case string, int64, bool, *value, nil:
			for k := range grouped {
				if eqConc(grouped[k].v, a.v) {
					grouped[k].g = mkOr(grouped[k].g, a.g)
					found = true
					break
				}
			}
		}
		if !found {
			grouped = append(grouped, a)
		}
	}
	if len(grouped) == 1 {
		return grouped[0].v
	}
	return &union{grouped}
}

func byteEq(a, b value) *term { return mkEq(asBV8(a), asBV8(b)) }

func strEq(a, b value) value {
	return liftU2(a, b, func(a, b value) value {
		x, y := toBytes(a), toBytes(b)
		if len(x) != len(y) {
			return false
		}
		cs := make([]*term, len(x))
		for i := range x {
			cs[i] = byteEq(x[i], y[i])
		}
		return boolVal(mkAnd(cs...))
	})
}

// a < b, lexicographic byte order
func strLess(a, b value) value {
	return liftU2(a, b, func(a, b value) value {
		x, y := toBytes(a), toBytes(b)
		n := len(x)
		if len(y) < n {
			n = len(y)
		}
		var ds []*term
		prefix := tTrue
		for i := 0; i < n; i++ {
			ds = append(ds, mkAnd(prefix, mkCmp("ult", asBV8(x[i]), asBV8(y[i]))))
			prefix = mkAnd(prefix, byteEq(x[i], y[i]))
		}
		if len(x) < len(y) {
			ds = append(ds, prefix)
		}
		return boolVal(mkOr(ds...))
	})
}

func isLetter(c int64) bool { return c >= 'A' && c <= 'Z' || c >= 'a' && c <= 'z' }

func rngTerm(t *term, lo, hi int64) *term {
	return mkAnd(mkCmp("ule", bvConst(lo, 8), t), mkCmp("ule", t, bvConst(hi, 8)))
}

func isASCIITerm(t *term) *term { return mkCmp("ult", t, bvConst(0x80, 8)) }

// ASCII EqualFold with symbolic bytes. Non-ASCII symbolic bytes: the caller must have
// established ASCII-ness (checked: the non-ASCII side is reported as unsupported).
func strFoldEq(a, b value) value {
	return liftU2(a, b, func(a, b value) value {
		as, aok := a.(string)
		bs, bok := b.(string)
		if aok && bok {
			return strings.EqualFold(as, bs)
		}
		x, y := toBytes(a), toBytes(b)
		if len(x) != len(y) {
			// EqualFold can equate strings of different byte length only through non-ASCII
			// folding (e.g. K / Kelvin sign). Require ASCII on the symbolic side.
			requireASCII(x)
			requireASCII(y)
			return false
		}
		requireASCII(x)
		requireASCII(y)
		cs := make([]*term, 0, len(x))
		for i := range x {
			xc, xok := x[i].(int64)
			yc, yok := y[i].(int64)
			switch {
			case xok && yok:
				if xc == yc || isLetter(xc) && isLetter(yc) && xc|0x20 == yc|0x20 {
					continue
				}
				return false
			case xok:
				cs = append(cs, foldByte(xc, y[i]))
			case yok:
				cs = append(cs, foldByte(yc, x[i]))
			default:
				xt, yt := x[i].(*term), y[i].(*term)
				lower := func(t *term) *term { return mkOr(rngTerm(t, 'A', 'Z'), rngTerm(t, 'a', 'z')) }
				// equal, or both letters differing exactly in bit 5
				bit5 := &term{op: "eq", args: []*term{
					{op: "raw", str: "(bvor " + xt.String() + " #x20)"},
					{op: "raw", str: "(bvor " + yt.String() + " #x20)"}}}
				cs = append(cs, mkOr(mkEq(xt, yt), mkAnd(lower(xt), lower(yt), bit5)))
			}
		}
		return boolVal(mkAnd(cs...))
	})
}

// ensure the path condition implies every symbolic byte of b is ASCII; otherwise fork and
// make the non-ASCII side inconclusive.
func requireASCII(b []value) {
	for _, e := range b {
		t, ok := e.(*term)
		if !ok || t.isConst() {
			continue
		}
		if iteConsts(t) {
			continue
		}
		if asciiKnown[t] {
			continue
		}
		if !impliedByPC(isASCIITerm(t)) {
			if !branch(boolVal(isASCIITerm(t))) {
				panic(unsupported{"EqualFold on a possibly non-ASCII symbolic byte"})
			}
		}
		asciiKnown[t] = true
	}
}

// does the current path condition imply c? (also usable inside merge regions)
func impliedByPC(c *term) bool {
	extra := append(append([]*term(nil), rs.pc[rs.pcSent:]...), mkNot(c))
	return z3.check(extra...) == "unsat"
}

var asciiKnown = map[*term]bool{}

func foldByte(c int64, s value) *term {
	if isLetter(c) {
		return mkOr(byteEq(c|0x20, s), byteEq(c&^0x20, s))
	}
	return byteEq(c, s)
}

func strConcat(a, b value) value {
	return liftU2(a, b, func(a, b value) value {
		x, y := toBytes(a), toBytes(b)
		out := make([]value, 0, len(x)+len(y))
		out = append(out, x...)
		out = append(out, y...)
		return fromBytes(out)
	})
}

func strLen(v value) value {
	return liftU(v, func(x value) value { return int64(len(toBytes(x))) })
}

func isBoolish(v value) bool {
	switch x := v.(type) {
	case *tab:
		_, ok := firstLive(x, rs.dom(x.v)).(bool)
		return ok
	case bool:
		return true
	case *term:
		return x.w == 0
	}
	return false
}

func isStringish(v value) bool {
	switch x := v.(type) {
	case string, symStr:
		return true
	case *union:
		return isStringish(x.alts[0].v)
	case *tab:
		_, ok := firstLive(x, rs.dom(x.v)).(string)
		return ok
	}
	return false
}

func notVal(v value) value {
	switch x := v.(type) {
	case bool:
		return !x
	case *term:
		return boolVal(mkNot(x))
	case *tab:
		return lift1(x, func(b value) value { return !b.(bool) })
	}
	panic(unsupported{"not " + describe(v)})
}

func symBinop(op token.Token, a, b value) value {
	if isStringish(a) || isStringish(b) {
		switch op {
		case token.ADD:
			return strConcat(a, b)
		case token.EQL:
			return strEq(a, b)
		case token.NEQ:
			return notVal(strEq(a, b))
		case token.LSS:
			return strLess(a, b)
		case token.GTR:
			return strLess(b, a)
		case token.LEQ:
			return notVal(strLess(b, a))
		case token.GEQ:
			return notVal(strLess(a, b))
		}
		panic(unsupported{"string binop " + op.String()})
	}
	if isBoolish(a) && isBoolish(b) {
		x, y := asBool(a), asBool(b)
		switch op {
		case token.EQL:
			return boolVal(mkIff(x, y))
		case token.NEQ:
			return boolVal(mkNot(mkIff(x, y)))
		}
		panic(unsupported{"bool binop " + op.String()})
	}
	if u, ok := a.(*union); ok {
		return liftU(u, func(x value) value { return binop(op, x, b, nil) })
	}
	if u, ok := b.(*union); ok {
		return liftU(u, func(y value) value { return binop(op, a, y, nil) })
	}
	if ta, ok := a.(*tab); ok {
		a = concretize(ta)
	}
	if tb, ok := b.(*tab); ok {
		b = concretize(tb)
	}
	x, y := asBV8(a), asBV8(b)
	switch op {
	case token.ADD:
		return mkBV8("bvadd", x, y)
	case token.SUB:
		return mkBV8("bvsub", x, y)
	case token.AND:
		return mkBV8("bvand", x, y)
	case token.OR:
		return mkBV8("bvor", x, y)
	case token.XOR:
		return mkBV8("bvxor", x, y)
	case token.AND_NOT:
		return mkBV8("bvand", x, mkBV8("bvxor", y, bvConst(0xff, 8)))
	case token.EQL:
		return boolVal(mkEq(x, y))
	case token.NEQ:
		return boolVal(mkNot(mkEq(x, y)))
	case token.LSS:
		return boolVal(mkCmp("ult", x, y))
	case token.LEQ:
		return boolVal(mkCmp("ule", x, y))
	case token.GTR:
		return boolVal(mkCmp("ult", y, x))
	case token.GEQ:
		return boolVal(mkCmp("ule", y, x))
	}
	panic(unsupported{"sym binop " + op.String()})
}

// ---------- regexp model: class* / class+ with an ASCII class ----------

type regexObj struct {
	pattern string
	ranges  []rune // pairs lo,hi (ASCII only)
	plus    bool
	native  bool // pattern outside the symbolic model: concrete subjects only
}

func compileRegex(p string) regexObj {
	r := regexObj{pattern: p, native: true}
	re, err := syntax.Parse(p, syntax.Perl)
	if err != nil {
		return r
	}
	re = re.Simplify()
	if re.Op != syntax.OpStar && re.Op != syntax.OpPlus {
		return r
	}
	sub := re.Sub[0]
	var rr []rune
	switch sub.Op {
	case syntax.OpCharClass:
		rr = sub.Rune
	case syntax.OpLiteral:
		if len(sub.Rune) != 1 || sub.Flags&syntax.FoldCase != 0 {
			return r
		}
		rr = []rune{sub.Rune[0], sub.Rune[0]}
	default:
		return r
	}
	for _, c := range rr {
		if c >= 0x80 {
			return r
		}
	}
	r.ranges = rr
	r.plus = re.Op == syntax.OpPlus
	r.native = false
	return r
}

func (r regexObj) inClass(b value) value {
	if c, ok := b.(int64); ok {
		for i := 0; i+1 < len(r.ranges); i += 2 {
			if rune(c) >= r.ranges[i] && rune(c) <= r.ranges[i+1] {
				return true
			}
		}
		return false
	}
	t := b.(*term)
	var ds []*term
	for i := 0; i+1 < len(r.ranges); i += 2 {
		lo, hi := int64(r.ranges[i]), int64(r.ranges[i+1])
		if lo == hi {
			ds = append(ds, mkEq(t, bvConst(lo, 8)))
		} else {
			ds = append(ds, rngTerm(t, lo, hi))
		}
	}
	return boolVal(mkOr(ds...))
}

// leftmost-longest match of class* / class+ on a symbolic subject
func findStringIndexSym(r regexObj, subj value) value {
	b := toBytes(subj)
	start := 0
	if r.plus {
		for start < len(b) && !branch(r.inClass(b[start])) {
			start++
		}
		if start == len(b) {
			return sliceVal{nil, 8}
		}
	}
	end := start
	if r.plus {
		end = start + 1
	}
	for end < len(b) && branch(r.inClass(b[end])) {
		end++
	}
	return sliceVal{[]value{int64(start), int64(end)}, 8}
}

var idRanges = []rune{'-', '.', '0', '9', 'A', 'Z', 'a', 'z'}

func isIDCharVal(b value) value {
	return regexObj{ranges: idRanges}.inClass(b)
}
