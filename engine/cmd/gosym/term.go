package main

// SMT terms (QF_BV + Bool) with light simplification.

import (
	"fmt"
	"strings"
)

type term struct {
	op   string // var const eq and or not ite ule ult bit0 dom
	args []*term
	w    int // 0 = Bool, else bit width
	name string
	val  int64
	str  string
}

var tTrue = &term{op: "const", w: 0, val: 1}
var tFalse = &term{op: "const", w: 0, val: 0}

func (t *term) isConst() bool      { return t.op == "const" }
func bvConst(v int64, w int) *term { return &term{op: "const", w: w, val: v} }
func boolConst(b bool) *term {
	if b {
		return tTrue
	}
	return tFalse
}

func (t *term) String() string {
	if t.str != "" {
		return t.str
	}
	var r string
	switch t.op {
	case "var":
		r = t.name
	case "const":
		if t.w == 0 {
			if t.val == 1 {
				r = "true"
			} else {
				r = "false"
			}
		} else {
			r = fmt.Sprintf("(_ bv%d %d)", uint64(t.val)&(1<<uint(t.w)-1), t.w)
		}
	case "eq":
		r = "(= " + t.args[0].String() + " " + t.args[1].String() + ")"
	case "ule":
		r = "(bvule " + t.args[0].String() + " " + t.args[1].String() + ")"
	case "ult":
		r = "(bvult " + t.args[0].String() + " " + t.args[1].String() + ")"
	case "not":
		r = "(not " + t.args[0].String() + ")"
	case "bit0":
		r = fmt.Sprintf("(= ((_ extract %d %d) %s) #b0)", t.val, t.val, t.args[0].String())
	case "dom":
		r = t.args[0].String()
	case "ite":
		r = "(ite " + t.args[0].String() + " " + t.args[1].String() + " " + t.args[2].String() + ")"
	case "bvop":
		r = "(" + t.name + " " + t.args[0].String() + " " + t.args[1].String() + ")"
	case "and", "or":
		var sb strings.Builder
		sb.WriteString("(" + t.op)
		for _, a := range t.args {
			sb.WriteString(" " + a.String())
		}
		sb.WriteString(")")
		r = sb.String()
	default:
		panic("term op " + t.op)
	}
	t.str = r
	return r
}

func mkNot(a *term) *term {
	if a.isConst() {
		return boolConst(a.val != 1)
	}
	if a.op == "not" {
		return a.args[0]
	}
	return &term{op: "not", args: []*term{a}}
}

func mkAnd(xs ...*term) *term {
	out := make([]*term, 0, len(xs))
	for _, x := range xs {
		if x.op == "dom" {
			x = x.args[0]
		}
		if x.isConst() {
			if x.val == 0 {
				return tFalse
			}
			continue
		}
		if x.op == "and" {
			out = append(out, x.args...)
			continue
		}
		out = append(out, x)
	}
	switch len(out) {
	case 0:
		return tTrue
	case 1:
		return out[0]
	}
	return &term{op: "and", args: out}
}

func mkOr(xs ...*term) *term {
	out := make([]*term, 0, len(xs))
	for _, x := range xs {
		if x.isConst() {
			if x.val == 1 {
				return tTrue
			}
			continue
		}
		if x.op == "or" {
			out = append(out, x.args...)
			continue
		}
		out = append(out, x)
	}
	if len(out) <= 8 {
		for i, x := range out {
			for _, y := range out[i+1:] {
				if x.op == "not" && x.args[0] == y || y.op == "not" && y.args[0] == x {
					return tTrue
				}
			}
		}
	}
	switch len(out) {
	case 0:
		return tFalse
	case 1:
		return out[0]
	}
	return &term{op: "or", args: out}
}

func mkImplies(a, b *term) *term { return mkOr(mkNot(a), b) }

func mkIff(a, b *term) *term {
	if a.isConst() {
		if a.val == 1 {
			return b
		}
		return mkNot(b)
	}
	if b.isConst() {
		if b.val == 1 {
			return a
		}
		return mkNot(a)
	}
	if a == b {
		return tTrue
	}
	return &term{op: "eq", args: []*term{a, b}}
}

func mkIte(c, a, b *term) *term {
	if c.isConst() {
		if c.val == 1 {
			return a
		}
		return b
	}
	if a == b {
		return a
	}
	if a.w == 0 {
		return mkOr(mkAnd(c, a), mkAnd(mkNot(c), b))
	}
	if a.isConst() && b.isConst() && a.val == b.val {
		return a
	}
	return &term{op: "ite", w: a.w, args: []*term{c, a, b}}
}

func iteConsts(t *term) bool {
	return t.op == "ite" && t.w > 0 && len(t.args) == 3 && t.args[1].isConst() && t.args[2].isConst()
}

func mkEq(a, b *term) *term {
	if a.w == 0 {
		return mkIff(a, b)
	}
	if iteConsts(b) && !iteConsts(a) {
		a, b = b, a
	}
	if iteConsts(a) && b.isConst() {
		return mkOr(mkAnd(a.args[0], mkEq(a.args[1], b)), mkAnd(mkNot(a.args[0]), mkEq(a.args[2], b)))
	}
	if a.isConst() && b.isConst() {
		return boolConst(a.val == b.val)
	}
	if a == b {
		return tTrue
	}
	return &term{op: "eq", args: []*term{a, b}}
}

func mkCmp(op string, a, b *term) *term {
	if iteConsts(a) && b.isConst() {
		return mkOr(mkAnd(a.args[0], mkCmp(op, a.args[1], b)), mkAnd(mkNot(a.args[0]), mkCmp(op, a.args[2], b)))
	}
	if iteConsts(b) && a.isConst() {
		return mkOr(mkAnd(b.args[0], mkCmp(op, a, b.args[1])), mkAnd(mkNot(b.args[0]), mkCmp(op, a, b.args[2])))
	}
	if a.isConst() && b.isConst() {
		if op == "ule" {
			return boolConst(uint64(a.val) <= uint64(b.val))
		}
		return boolConst(uint64(a.val) < uint64(b.val))
	}
	if a == b {
		return boolConst(op == "ule")
	}
	return &term{op: op, args: []*term{a, b}}
}

// collect free variables of a term
func termVars(t *term, seen map[*term]bool, out map[string]*term) {
	if seen[t] {
		return
	}
	seen[t] = true
	if t.op == "var" {
		out[t.name] = t
		return
	}
	for _, a := range t.args {
		termVars(a, seen, out)
	}
}

// 8-bit arithmetic / bitwise operation
func mkBV8(name string, a, b *term) *term {
	if a.isConst() && b.isConst() {
		x, y := a.val&0xff, b.val&0xff
		var r int64
		switch name {
		case "bvadd":
			r = x + y
		case "bvsub":
			r = x - y
		case "bvand":
			r = x & y
		case "bvor":
			r = x | y
		case "bvxor":
			r = x ^ y
		}
		return bvConst(r&0xff, 8)
	}
	// push the operation through an if-then-else of constants (case-masked bytes), so that
	// comparisons of the result still fold
	if iteConsts(a) && b.isConst() {
		return &term{op: "ite", w: 8, args: []*term{a.args[0], mkBV8(name, a.args[1], b), mkBV8(name, a.args[2], b)}}
	}
	if iteConsts(b) && a.isConst() {
		return &term{op: "ite", w: 8, args: []*term{b.args[0], mkBV8(name, a, b.args[1]), mkBV8(name, a, b.args[2])}}
	}
	return &term{op: "bvop", name: name, args: []*term{a, b}, w: 8}
}
