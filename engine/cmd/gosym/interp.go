package main

// SSA interpreter over engine values.

import (
	"fmt"
	"go/token"
	"go/types"
	"strings"
	"time"

	"golang.org/x/tools/go/ssa"
)

type funcInfo struct {
	slots map[ssa.Value]int
	n     int
}

var funcInfos = map[*ssa.Function]*funcInfo{}

func infoOf(fn *ssa.Function) *funcInfo {
	if fi, ok := funcInfos[fn]; ok {
		return fi
	}
	fi := &funcInfo{slots: map[ssa.Value]int{}}
	for _, p := range fn.Params {
		fi.slots[p] = fi.n
		fi.n++
	}
	for _, b := range fn.Blocks {
		for _, in := range b.Instrs {
			if v, ok := in.(ssa.Value); ok {
				fi.slots[v] = fi.n
				fi.n++
			}
		}
	}
	funcInfos[fn] = fi
	return fi
}

type frame struct {
	fn   *ssa.Function
	fi   *funcInfo
	regs []value
	free []value
}

var (
	prog    *ssa.Program
	globals map[*ssa.Global]*value
)

func (fr *frame) get(v ssa.Value) value {
	switch x := v.(type) {
	case *ssa.Const:
		return constVal(x)
	case *ssa.Global:
		g, ok := globals[x]
		if !ok {
			panic(unsupported{"global of another package: " + x.String()})
		}
		noteGlobalUse(x)
		return g
	case *ssa.Function:
		return &closure{fn: x}
	case *ssa.Builtin:
		return x
	case *ssa.FreeVar:
		for i, fv := range fr.fn.FreeVars {
			if fv == x {
				return fr.free[i]
			}
		}
	}
	if s, ok := fr.fi.slots[v]; ok {
		return fr.regs[s]
	}
	panic(unsupported{"no value for " + v.Name() + " in " + fr.fn.String()})
}

func (fr *frame) set(v ssa.Value, x value) { fr.regs[fr.fi.slots[v]] = x }

func posOf(in ssa.Instruction) string {
	p := prog.Fset.Position(in.Pos())
	fn := in.Parent()
	name := "?"
	if fn != nil {
		name = fn.Name()
	}
	if p.IsValid() {
		f := p.Filename
		if i := strings.LastIndex(f, "/"); i >= 0 {
			f = f[i+1:]
		}
		return fmt.Sprintf("%s:%s", f, name)
	}
	return name
}

func rtp(msg string) rtPanic {
	site := ""
	if rs != nil && rs.curInstr != nil {
		site = posOf(rs.curInstr)
	}
	return rtPanic{msg, site}
}

// pointer to an element of a concrete table selected by a symbolic byte (read-only)
type symElemPtr struct {
	elems []value
	idx   *term
}

// value of elems[idx] for a symbolic 8-bit idx over concrete booleans / small integers
func selectSym(elems []value, idx *term) value {
	n := len(elems)
	if n > 256 {
		n = 256
	}
	if n == 0 {
		panic(rtp("index out of range"))
	}
	inRange := tTrue
	if n < 256 {
		inRange = mkCmp("ult", idx, bvConst(int64(n), 8))
		if !branch(boolVal(inRange)) {
			panic(rtp("index out of range"))
		}
	}
	switch elems[0].(type) {
	case bool:
		var ds []*term
		for i := 0; i < n; {
			if b, ok := elems[i].(bool); !ok {
				panic(unsupported{"symbolic index into a table with symbolic entries"})
			} else if !b {
				i++
				continue
			}
			j := i
			for j+1 < n {
				if b, ok := elems[j+1].(bool); ok && b {
					j++
				} else {
					break
				}
			}
			if i == j {
				ds = append(ds, mkEq(idx, bvConst(int64(i), 8)))
			} else {
				ds = append(ds, rngTerm(idx, int64(i), int64(j)))
			}
			i = j + 1
		}
		return boolVal(mkOr(ds...))
	case int64:
		// byte-valued tables (e.g. a lower-casing table): nested ite over runs of equal values
		var t *term
		for i := n - 1; i >= 0; {
			v, ok := elems[i].(int64)
			if !ok || v < 0 || v > 255 {
				panic(unsupported{"symbolic index into a table of non-byte integers"})
			}
			j := i
			for j-1 >= 0 {
				if w, ok := elems[j-1].(int64); ok && w == v {
					j--
				} else {
					break
				}
			}
			c := bvConst(v, 8)
			if t == nil {
				t = c
			} else {
				t = mkIte(rngTerm(idx, int64(j), int64(i)), c, t)
			}
			i = j - 1
		}
		return t
	}
	panic(unsupported{"symbolic index into a table of " + describe(elems[0])})
}

func deref(p value) value {
	switch x := p.(type) {
	case symElemPtr:
		return selectSym(x.elems, x.idx)
	case *value:
		if x == nil {
			panic(rtp("nil pointer dereference"))
		}
		return copyVal(*x)
	case *tab:
		return transpose(lift1(x, func(q value) value { return deref(q) }))
	case *union:
		return liftU(x, func(q value) value { return deref(q) })
	}
	panic(unsupported{fmt.Sprintf("deref %s", describe(p))})
}

// == / != on structs and arrays: field-wise
func compositeEq(a, b []value) value {
	var r value = true
	for i := range a {
		e := binop(token.EQL, a[i], b[i], nil)
		if eb, ok := e.(bool); ok {
			if !eb {
				return false
			}
			continue
		}
		if rb, ok := r.(bool); ok && rb {
			r = e
			continue
		}
		r = boolVal(mkAnd(asBool(r), asBool(e)))
	}
	return r
}

func binop(op token.Token, a, b value, t types.Type) value {
	if op == token.EQL || op == token.NEQ {
		var x, y []value
		switch av := a.(type) {
		case structure:
			if bv, ok := b.(structure); ok && len(av) == len(bv) {
				x, y = av, bv
			}
		case array:
			if bv, ok := b.(array); ok && len(av) == len(bv) {
				x, y = av, bv
			}
		}
		if x != nil {
			r := compositeEq(x, y)
			if op == token.NEQ {
				return notVal(r)
			}
			return r
		}
	}
	if ta, ok := a.(*tab); ok {
		if tb, ok2 := b.(*tab); ok2 && ta.v != tb.v {
			if r := twoVar(op, ta, tb, false); r != nil {
				return r
			}
		}
	}
	if isSym(a) || isSym(b) {
		return symBinop(op, a, b)
	}
	return lift2(a, b, func(a, b value) value { return binopC(op, a, b, t) })
}

func binopC(op token.Token, a, b value, t types.Type) value {
	switch x := a.(type) {
	case int64:
		y, ok := b.(int64)
		if !ok {
			break
		}
		uns := t != nil && isUnsigned(t)
		var r int64
		switch op {
		case token.ADD:
			r = x + y
		case token.SUB:
			r = x - y
		case token.MUL:
			r = x * y
		case token.QUO:
			if y == 0 {
				panic(rtp("integer divide by zero"))
			}
			if uns {
				r = int64(uint64(x) / uint64(y))
			} else {
				r = x / y
			}
		case token.REM:
			if y == 0 {
				panic(rtp("integer divide by zero"))
			}
			if uns {
				r = int64(uint64(x) % uint64(y))
			} else {
				r = x % y
			}
		case token.AND:
			r = x & y
		case token.OR:
			r = x | y
		case token.XOR:
			r = x ^ y
		case token.AND_NOT:
			r = x &^ y
		case token.SHL:
			r = x << uint64(y)
		case token.SHR:
			if uns {
				r = int64(uint64(x) >> uint64(y))
			} else {
				r = x >> uint64(y)
			}
		case token.EQL:
			return x == y
		case token.NEQ:
			return x != y
		case token.LSS:
			if uns {
				return uint64(x) < uint64(y)
			}
			return x < y
		case token.LEQ:
			if uns {
				return uint64(x) <= uint64(y)
			}
			return x <= y
		case token.GTR:
			if uns {
				return uint64(x) > uint64(y)
			}
			return x > y
		case token.GEQ:
			if uns {
				return uint64(x) >= uint64(y)
			}
			return x >= y
		default:
			panic(unsupported{"int binop " + op.String()})
		}
		if t != nil {
			r = wrapInt(t, r)
		}
		return r
	case string:
		y, ok := b.(string)
		if !ok {
			break
		}
		switch op {
		case token.ADD:
			return x + y
		case token.EQL:
			return x == y
		case token.NEQ:
			return x != y
		case token.LSS:
			return x < y
		case token.LEQ:
			return x <= y
		case token.GTR:
			return x > y
		case token.GEQ:
			return x >= y
		}
	case bool:
		y, ok := b.(bool)
		if !ok {
			break
		}
		switch op {
		case token.EQL:
			return x == y
		case token.NEQ:
			return x != y
		}
	case *value:
		y, ok := b.(*value)
		if !ok {
			break
		}
		switch op {
		case token.EQL:
			return x == y
		case token.NEQ:
			return x != y
		}
	case iface:
		y, ok := b.(iface)
		if !ok {
			break
		}
		eq := x.t == nil && y.t == nil || (x.t != nil && y.t != nil && types.Identical(x.t, y.t) && eqConc(x.v, y.v))
		switch op {
		case token.EQL:
			return eq
		case token.NEQ:
			return !eq
		}
	case sliceVal:
		y, ok := b.(sliceVal)
		if !ok || (x.s != nil && y.s != nil) {
			break
		}
		eq := x.s == nil && y.s == nil
		if op == token.EQL {
			return eq
		}
		return !eq
	case *mapVal:
		y, ok := b.(*mapVal)
		if !ok {
			break
		}
		if op == token.EQL {
			return x == y
		}
		return x != y
	case *closure:
		y, ok := b.(*closure)
		if !ok {
			break
		}
		if op == token.EQL {
			return x == y
		}
		return x != y
	}
	panic(unsupported{fmt.Sprintf("binop %s %s %s", op, describe(a), describe(b))})
}

var fnNames = map[*ssa.Function]string{}

func fnName(fn *ssa.Function) string {
	if n, ok := fnNames[fn]; ok {
		return n
	}
	n := fn.String()
	fnNames[fn] = n
	return n
}

func call(fn *ssa.Function, args []value, free []value) value {
	name := fnName(fn)
	if r, ok := intrinsic(name, fn, args, free); ok {
		return r
	}
	if (memoList[name] || strings.HasPrefix(fn.Name(), "vTable")) && !cfg.NoMemo {
		if r, ok := memoCall(name, fn, args, free); ok {
			return r
		}
	}
	if mergeList[name] && !cfg.NoMerge {
		if anySymbolic(args) {
			return mergeCall(fn, args, free)
		}
	}
	if !cfg.NoMerge && len(free) == 0 && autoMergeable(fn) && scalarSymbolic(args) {
		// small side-effect-free helpers over scalars (a hand-written byte classifier or
		// case folder): their branches become data (if-then-else terms) instead of forks
		return mergeCall(fn, args, free)
	}
	return callBody(fn, args, free)
}

// all arguments scalars or strings, at least one of them symbolic
func scalarSymbolic(args []value) bool {
	sym := false
	for _, a := range args {
		switch x := a.(type) {
		case bool, int64, string:
		case *term, symStr, *tab:
			sym = true
		case *union:
			_ = x
			return false
		default:
			return false
		}
	}
	return sym
}

var autoMergeCache = map[*ssa.Function]int{} // 1 yes, 2 no, 3 in progress

// a function is merged automatically when it (transitively) only computes on scalars and
// strings: no stores, allocations, maps, channels, goroutines, defers or interface calls, and
// every static callee is such a function or a modelled pure string helper
func autoMergeable(fn *ssa.Function) bool {
	switch autoMergeCache[fn] {
	case 1:
		return true
	case 2, 3:
		return false
	}
	autoMergeCache[fn] = 3
	ok := autoMergeCheck(fn)
	if ok {
		autoMergeCache[fn] = 1
	} else {
		autoMergeCache[fn] = 2
	}
	return ok
}

var pureExternals = map[string]bool{"strings.EqualFold": true, "strings.HasPrefix": true, "strings.HasSuffix": true, "strings.ToLower": true, "strings.ToUpper": true,
	"unicode.IsLetter": true, "unicode.IsDigit": true, "unicode.IsUpper": true, "unicode.IsLower": true, "unicode.ToLower": true, "unicode.ToUpper": true}

func scalarType(t types.Type) bool {
	switch u := t.Underlying().(type) {
	case *types.Basic:
		return u.Info()&(types.IsBoolean|types.IsInteger|types.IsString) != 0
	case *types.Tuple:
		for i := 0; i < u.Len(); i++ {
			if !scalarType(u.At(i).Type()) {
				return false
			}
		}
		return true
	}
	return false
}

func autoMergeCheck(fn *ssa.Function) bool {
	if fn.Blocks == nil || fn.Pkg == nil || !interpPkgs[fn.Pkg.Pkg.Path()] || len(fn.FreeVars) > 0 || strings.HasPrefix(fn.Name(), "v") || strings.HasPrefix(fn.Name(), "VH_") {
		return false
	}
	n := 0
	for _, p := range fn.Params {
		if !scalarType(p.Type()) {
			return false
		}
	}
	if !scalarType(fn.Signature.Results()) {
		return false
	}
	for _, b := range fn.Blocks {
		for _, in := range b.Instrs {
			n++
			switch x := in.(type) {
			case *ssa.Phi, *ssa.BinOp, *ssa.UnOp, *ssa.If, *ssa.Jump, *ssa.Return, *ssa.Convert, *ssa.ChangeType, *ssa.Index, *ssa.Slice, *ssa.DebugRef, *ssa.Extract:
				if u, ok := in.(*ssa.UnOp); ok && (u.Op == token.MUL || u.Op == token.ARROW) {
					return false
				}
			case *ssa.Call:
				if x.Call.IsInvoke() {
					return false
				}
				switch f := x.Call.Value.(type) {
				case *ssa.Builtin:
					if f.Name() != "len" {
						return false
					}
				case *ssa.Function:
					if !pureExternals[f.String()] && !(f != fn && autoMergeable(f)) {
						return false
					}
				default:
					return false
				}
			default:
				return false
			}
		}
	}
	return n <= 400
}

func anySymbolic(args []value) bool {
	for _, a := range args {
		if hasSym(a, 0) {
			return true
		}
	}
	return false
}

// does the value (transitively, bounded depth) contain symbolic parts?
func hasSym(v value, depth int) bool {
	if depth > 6 {
		return true
	}
	switch x := v.(type) {
	case *tab, *term, symStr, *union:
		return true
	case structure:
		for _, e := range x {
			if hasSym(e, depth+1) {
				return true
			}
		}
	case array:
		for _, e := range x {
			if hasSym(e, depth+1) {
				return true
			}
		}
	case tuple:
		for _, e := range x {
			if hasSym(e, depth+1) {
				return true
			}
		}
	case sliceVal:
		for _, e := range x.s {
			if hasSym(e, depth+1) {
				return true
			}
		}
	case *value:
		if x != nil {
			return hasSym(*x, depth+1)
		}
	case iface:
		return hasSym(x.v, depth+1)
	}
	return false
}

var memo = map[string]value{}

func memoCall(name string, fn *ssa.Function, args []value, free []value) (value, bool) {
	key := name
	for _, x := range args {
		s, ok := x.(string)
		if !ok {
			return nil, false
		}
		key += "\x00" + s
	}
	if r, ok := memo[key]; ok {
		stats.memoHits++
		return deepCopy(r, map[*value]*value{}), true
	}
	res := callBody(fn, args, free)
	if hasSym(res, 0) {
		return res, true
	}
	memo[key] = deepCopy(res, map[*value]*value{})
	return res, true
}

func callBody(fn *ssa.Function, args []value, free []value) value {
	if fn.Blocks == nil {
		if r, ok := nativeCall(fn, args); ok {
			return r
		}
		panic(unsupported{"external function " + fn.String()})
	}
	if onceHelper(fn) {
		// sync.OnceFunc / OnceValue / OnceValues and their closures are thin wrappers around
		// sync.Once (modelled): interpret their bodies
	} else if fn.Pkg != nil && !interpPkgs[fn.Pkg.Pkg.Path()] {
		if r, ok := nativeCall(fn, args); ok {
			return r
		}
		if fn.Name() == "init" {
			return nil
		}
		panic(unsupported{"call into unmodelled package: " + fn.String()})
	}
	if fn.Pkg != nil && interpPkgs[fn.Pkg.Pkg.Path()] && !funcsSeen[fn] {
		funcsSeen[fn] = true
	}
	rs.depth++
	if rs.depth > cfg.MaxDepth {
		panic(unwindFail{"call depth > " + fmt.Sprint(cfg.MaxDepth) + " in " + fn.String()})
	}
	fi := infoOf(fn)
	fr := &frame{fn: fn, fi: fi, regs: make([]value, fi.n), free: free}
	copy(fr.regs, args)
	saved := rs.curInstr
	r := run(fr)
	rs.curInstr = saved
	rs.depth--
	return r
}

func onceHelper(fn *ssa.Function) bool {
	for f := fn; f != nil; f = f.Parent() {
		n := f.String()
		if strings.HasPrefix(n, "sync.OnceValue") || strings.HasPrefix(n, "sync.OnceFunc") {
			return f.Blocks != nil
		}
		if o := f.Origin(); o != nil {
			n = o.String()
			if strings.HasPrefix(n, "sync.OnceValue") || strings.HasPrefix(n, "sync.OnceFunc") {
				return f.Blocks != nil
			}
		}
	}
	return false
}

type unwindFail struct{ msg string }

var jobDeadline time.Time

func run(fr *frame) value {
	var prev *ssa.BasicBlock
	b := fr.fn.Blocks[0]
	for {
	next:
		for _, in := range b.Instrs {
			rs.steps++
			if rs.steps > cfg.MaxSteps {
				panic(unwindFail{"step budget exceeded"})
			}
			if rs.steps&0xfffff == 0 && !jobDeadline.IsZero() && time.Now().After(jobDeadline) {
				panic(unwindFail{"job time budget exhausted"})
			}
			rs.curInstr = in
			switch x := in.(type) {
			case *ssa.DebugRef:
			case *ssa.Phi:
				for i, p := range b.Preds {
					if p == prev {
						fr.set(x, fr.get(x.Edges[i]))
						break
					}
				}
			case *ssa.Alloc:
				v := zero(x.Type().Underlying().(*types.Pointer).Elem())
				fr.set(x, &v)
			case *ssa.UnOp:
				a := fr.get(x.X)
				switch x.Op {
				case token.MUL:
					fr.set(x, deref(a))
				case token.ARROW:
					ch, ok := a.(*chanVal)
					if !ok || ch == nil {
						panic(unsupported{"receive on a nil or unmodelled channel"})
					}
					if len(ch.buf) == 0 {
						runPendingGoroutines()
					}
					et := x.X.Type().Underlying().(*types.Chan).Elem()
					var v value
					got := false
					if len(ch.buf) > 0 {
						v, got = ch.buf[0], true
						ch.buf = ch.buf[1:]
					} else if ch.closed {
						v = zero(et)
					} else {
						panic(unsupported{"receive that blocks forever in the sequentialised schedule"})
					}
					if x.CommaOk {
						fr.set(x, tuple{v, got})
					} else {
						fr.set(x, v)
					}
				case token.NOT:
					fr.set(x, notVal(a))
				case token.SUB:
					fr.set(x, lift1(a, func(v value) value { return wrapInt(x.Type(), -v.(int64)) }))
				case token.XOR:
					fr.set(x, lift1(a, func(v value) value { return wrapInt(x.Type(), ^v.(int64)) }))
				default:
					panic(unsupported{"unop " + x.Op.String()})
				}
			case *ssa.BinOp:
				fr.set(x, binop(x.Op, fr.get(x.X), fr.get(x.Y), x.X.Type()))
			case *ssa.Store:
				doStore(fr.get(x.Addr), fr.get(x.Val), x)
			case *ssa.FieldAddr:
				p := fr.get(x.X)
				fld := x.Field
				fr.set(x, liftPtr(p, func(q value) value {
					pp := q.(*value)
					if pp == nil {
						panic(rtp("nil pointer dereference"))
					}
					return &(*pp).(structure)[fld]
				}))
			case *ssa.Field:
				fr.set(x, copyVal(fr.get(x.X).(structure)[x.Field]))
			case *ssa.IndexAddr:
				fr.set(x, doIndexAddr(fr.get(x.X), fr.get(x.Index)))
			case *ssa.Index:
				fr.set(x, doIndex(fr.get(x.X), fr.get(x.Index)))
			case *ssa.Slice:
				fr.set(x, doSlice(fr, x))
			case *ssa.MakeSlice:
				n := concretize(fr.get(x.Len)).(int64)
				c := concretize(fr.get(x.Cap)).(int64)
				if n < 0 || c < n {
					panic(rtp("makeslice: len out of range"))
				}
				if c > int64(cfg.MaxSlice) {
					panic(unwindFail{"makeslice too large"})
				}
				et := x.Type().Underlying().(*types.Slice).Elem()
				s := make([]value, c)
				z := zero(et)
				for i := range s {
					s[i] = copyVal(z)
				}
				fr.set(x, sliceVal{s[:n], sizes.Sizeof(et)})
			case *ssa.MakeMap:
				mapEpoch++
				fr.set(x, &mapVal{})
			case *ssa.MapUpdate:
				doMapUpdate(fr.get(x.Map), fr.get(x.Key), fr.get(x.Value))
			case *ssa.Lookup:
				fr.set(x, doLookup(x, fr.get(x.X), fr.get(x.Index)))
			case *ssa.Extract:
				fr.set(x, fr.get(x.Tuple).(tuple)[x.Index])
			case *ssa.MakeInterface:
				fr.set(x, iface{t: x.X.Type(), v: fr.get(x.X)})
			case *ssa.ChangeInterface:
				fr.set(x, fr.get(x.X))
			case *ssa.ChangeType:
				fr.set(x, fr.get(x.X))
			case *ssa.Convert:
				fr.set(x, doConvert(fr.get(x.X), x.X.Type(), x.Type()))
			case *ssa.MakeClosure:
				c := &closure{fn: x.Fn.(*ssa.Function)}
				for _, bnd := range x.Bindings {
					c.env = append(c.env, fr.get(bnd))
				}
				fr.set(x, c)
			case *ssa.Call:
				r := doCall(fr, &x.Call)
				rs.curInstr = in
				fr.set(x, r)
			case *ssa.TypeAssert:
				fr.set(x, doTypeAssert(x, fr.get(x.X)))
			case *ssa.Range:
				fr.set(x, doRange(fr.get(x.X)))
			case *ssa.Next:
				fr.set(x, doNext(x, fr.get(x.Iter)))
			case *ssa.Go:
				g := pendingGo{}
				for _, a := range x.Call.Args {
					g.args = append(g.args, fr.get(a))
				}
				if x.Call.IsInvoke() {
					panic(unsupported{"go statement on an interface method"})
				}
				switch f := x.Call.Value.(type) {
				case *ssa.Function:
					g.fn = &closure{fn: f}
				default:
					cl, ok := fr.get(x.Call.Value).(*closure)
					if !ok || cl == nil {
						panic(unsupported{"go statement on " + describe(fr.get(x.Call.Value))})
					}
					g.fn = cl
				}
				goQueue = append(goQueue, g)
				goSpawned++
			case *ssa.MakeChan:
				fr.set(x, &chanVal{})
			case *ssa.Send:
				ch, ok := fr.get(x.Chan).(*chanVal)
				if !ok || ch == nil {
					panic(unsupported{"send on a nil or unmodelled channel"})
				}
				if ch.closed {
					panic(rtp("send on closed channel"))
				}
				ch.buf = append(ch.buf, copyVal(fr.get(x.X)))
			case *ssa.Select:
				panic(unsupported{"select statement"})
			case *ssa.Defer:
				// deferred calls are collected and run at RunDefers
				fr.defer_(x, fr)
			case *ssa.RunDefers:
				fr.runDefers()
			case *ssa.If:
				c := fr.get(x.Cond)
				prev = b
				if branch(c) {
					b = b.Succs[0]
				} else {
					b = b.Succs[1]
				}
				break next
			case *ssa.Jump:
				prev = b
				b = b.Succs[0]
				break next
			case *ssa.Return:
				switch len(x.Results) {
				case 0:
					return nil
				case 1:
					return fr.get(x.Results[0])
				}
				t := make(tuple, len(x.Results))
				for i, r := range x.Results {
					t[i] = fr.get(r)
				}
				return t
			case *ssa.Panic:
				panic(rtp("explicit panic"))
			default:
				panic(unsupported{fmt.Sprintf("instruction %T in %s", in, fr.fn)})
			}
		}
	}
}

// Goroutines are sequentialised: a spawned goroutine is queued and all queued goroutines run
// to completion, in spawn order, at the first blocking operation (channel receive on an
// empty channel, WaitGroup.Wait) - one of the schedules the program admits; data races are
// the native race-detector run's subject (C13), not this model's.
type pendingGo struct {
	fn   *closure
	args []value
}
type chanVal struct {
	buf    []value
	closed bool
}

var goQueue []pendingGo
var goSpawned int

func runPendingGoroutines() {
	for len(goQueue) > 0 {
		g := goQueue[0]
		goQueue = goQueue[1:]
		call(g.fn.fn, g.args, g.fn.env)
	}
}

type deferred struct {
	fn   value
	args []value
	call *ssa.CallCommon
}

var deferStacks = map[*frame][]deferred{}

func (fr *frame) defer_(x *ssa.Defer, f *frame) {
	d := deferred{call: &x.Call}
	for _, a := range x.Call.Args {
		d.args = append(d.args, f.get(a))
	}
	if !x.Call.IsInvoke() {
		d.fn = f.get(x.Call.Value)
	} else {
		d.fn = f.get(x.Call.Value)
	}
	deferStacks[fr] = append(deferStacks[fr], d)
}

func (fr *frame) runDefers() {
	ds := deferStacks[fr]
	delete(deferStacks, fr)
	for i := len(ds) - 1; i >= 0; i-- {
		d := ds[i]
		if d.call.IsInvoke() {
			invoke(d.fn, d.call.Method, d.args)
			continue
		}
		switch f := d.fn.(type) {
		case *closure:
			call(f.fn, d.args, f.env)
		default:
			panic(unsupported{"deferred builtin"})
		}
	}
}

// map a pointer-producing function over concrete pointers / tables / unions of pointers
func liftPtr(p value, f func(value) value) value {
	switch x := p.(type) {
	case *tab:
		return lift1(x, f)
	case *union:
		return liftU(x, f)
	}
	return f(p)
}

func doStore(addr, val value, in ssa.Instruction) {
	if g, ok := in.(*ssa.Store); ok {
		if gl, isG := g.Addr.(*ssa.Global); isG {
			noteGlobalStore(gl)
		}
	}
	switch p := addr.(type) {
	case *value:
		if p == nil {
			panic(rtp("nil pointer dereference"))
		}
		*p = copyVal(val)
	case *tab:
		// store through a table of pointers: fork on the target
		q := concretize(p).(*value)
		if q == nil {
			panic(rtp("nil pointer dereference"))
		}
		*q = copyVal(val)
	case *union:
		q := splitUnion(p).(*value)
		if q == nil {
			panic(rtp("nil pointer dereference"))
		}
		*q = copyVal(val)
	default:
		panic(unsupported{"store to " + describe(addr)})
	}
}

func doIndexAddr(base, idx value) value {
	if u, ok := base.(*union); ok {
		base = splitUnion(u)
	}
	if t, ok := base.(*tab); ok {
		base = concretize(t)
	}
	var elems []value
	switch c := base.(type) {
	case sliceVal:
		elems = c.s
	case *value:
		if c == nil {
			panic(rtp("nil pointer dereference"))
		}
		elems = (*c).(array)
	default:
		panic(unsupported{"indexaddr " + describe(base)})
	}
	if t, ok := idx.(*term); ok && t.w == 8 {
		return symElemPtr{elems, t}
	}
	return lift1(idx, func(i value) value {
		k, ok := i.(int64)
		if !ok {
			panic(unsupported{"symbolic index"})
		}
		if k < 0 || int(k) >= len(elems) {
			panic(rtp("index out of range"))
		}
		return &elems[k]
	})
}

func doIndex(base, idx value) value {
	if u, ok := base.(*union); ok {
		return liftU(u, func(s value) value { return doIndex(s, idx) })
	}
	if t, ok := idx.(*term); ok && t.w == 8 {
		switch c := base.(type) {
		case array:
			return selectSym(c, t)
		case string:
			return selectSym(toBytes(c), t)
		}
	}
	return lift2(base, idx, func(s, i value) value {
		k, ok := i.(int64)
		if !ok {
			panic(unsupported{"symbolic index"})
		}
		switch c := s.(type) {
		case symStr:
			if k < 0 || int(k) >= len(c.b) {
				panic(rtp("index out of range"))
			}
			return c.b[k]
		case string:
			if k < 0 || int(k) >= len(c) {
				panic(rtp("index out of range"))
			}
			return int64(c[k])
		case array:
			if k < 0 || int(k) >= len(c) {
				panic(rtp("index out of range"))
			}
			return copyVal(c[k])
		}
		panic(unsupported{"index " + describe(s)})
	})
}

func doSlice(fr *frame, x *ssa.Slice) value {
	base := fr.get(x.X)
	get := func(v ssa.Value, def int64) int64 {
		if v == nil {
			return def
		}
		c, ok := concretize(fr.get(v)).(int64)
		if !ok {
			panic(unsupported{"symbolic slice bound"})
		}
		return c
	}
	var sliceStr func(sv value) value
	sliceStr = func(sv value) value {
		switch c := sv.(type) {
		case string:
			lo, hi := get(x.Low, 0), get(x.High, int64(len(c)))
			if lo < 0 || hi > int64(len(c)) || lo > hi {
				panic(rtp("slice bounds out of range"))
			}
			return c[lo:hi]
		case symStr:
			lo, hi := get(x.Low, 0), get(x.High, int64(len(c.b)))
			if lo < 0 || hi > int64(len(c.b)) || lo > hi {
				panic(rtp("slice bounds out of range"))
			}
			return fromBytes(c.b[lo:hi])
		}
		panic(unsupported{"slice of " + describe(sv)})
	}
	switch c := base.(type) {
	case string, symStr:
		return sliceStr(c)
	case *union:
		return liftU(c, sliceStr)
	case *tab:
		// table of strings with (possibly table) bounds over the same variable
		lo, hi := value(int64(0)), value(nil)
		if x.Low != nil {
			lo = fr.get(x.Low)
		}
		if x.High != nil {
			hi = fr.get(x.High)
		}
		if hi == nil {
			return lift2(c, lo, func(s, l value) value {
				str := s.(string)
				a := l.(int64)
				if a < 0 || a > int64(len(str)) {
					panic(rtp("slice bounds out of range"))
				}
				return str[a:]
			})
		}
		lh := lift2(lo, hi, func(a, b value) value { return tuple{a, b} })
		return lift2(c, lh, func(s, t value) value {
			str := s.(string)
			a, b := t.(tuple)[0].(int64), t.(tuple)[1].(int64)
			if a < 0 || b > int64(len(str)) || a > b {
				panic(rtp("slice bounds out of range"))
			}
			return str[a:b]
		})
	case sliceVal:
		lo, hi := get(x.Low, 0), get(x.High, int64(len(c.s)))
		mx := get(x.Max, int64(cap(c.s)))
		if lo < 0 || hi > int64(cap(c.s)) || lo > hi || mx > int64(cap(c.s)) || hi > mx {
			panic(rtp("slice bounds out of range"))
		}
		if c.s == nil {
			return c
		}
		return sliceVal{c.s[lo:hi:mx], c.elem}
	case *value:
		if c == nil {
			panic(rtp("nil pointer dereference"))
		}
		a := (*c).(array)
		lo, hi := get(x.Low, 0), get(x.High, int64(len(a)))
		if lo < 0 || hi > int64(len(a)) || lo > hi {
			panic(rtp("slice bounds out of range"))
		}
		et := x.Type().Underlying().(*types.Slice).Elem()
		return sliceVal{[]value(a)[lo:hi], sizes.Sizeof(et)}
	}
	panic(unsupported{"slice " + describe(base)})
}

func doMapUpdate(mv, k, v value) {
	m, ok := mv.(*mapVal)
	if !ok {
		panic(unsupported{"map update on " + describe(mv)})
	}
	if m == nil {
		panic(rtp("assignment to entry in nil map"))
	}
	if t, isTab := k.(*tab); isTab {
		k = concretize(t)
	}
	if u, isU := k.(*union); isU {
		k = splitUnion(u)
	}
	k = copyVal(k)
	noteMapWrite(m)
	for i, kk := range m.keys {
		if keyEq(kk, k) {
			m.vals[i] = copyVal(v)
			return
		}
	}
	m.keys = append(m.keys, k)
	m.vals = append(m.vals, copyVal(v))
}

// key equality for map updates; symbolic strings are resolved by forking
func keyEq(a, b value) bool {
	if x, ok := a.(array); ok {
		y, ok2 := b.(array)
		if !ok2 || len(x) != len(y) {
			return false
		}
		for i := range x {
			if !keyEq(x[i], y[i]) {
				return false
			}
		}
		return true
	}
	if x, ok := a.(structure); ok {
		y, ok2 := b.(structure)
		if !ok2 || len(x) != len(y) {
			return false
		}
		for i := range x {
			if !keyEq(x[i], y[i]) {
				return false
			}
		}
		return true
	}
	_, ta := a.(*tab)
	_, tb := b.(*tab)
	if ta || tb {
		return branch(binop(token.EQL, a, b, nil))
	}
	if isSym(a) || isSym(b) {
		if isStringish(a) || isStringish(b) {
			return branch(strEq(a, b))
		}
		return branch(binop(token.EQL, a, b, nil))
	}
	return eqConc(a, b)
}

func doLookup(x *ssa.Lookup, m, k value) value {
	if _, isMap := x.X.Type().Underlying().(*types.Map); !isMap {
		return doIndex(m, k)
	}
	elemT := x.X.Type().Underlying().(*types.Map).Elem()
	if isSym(k) {
		// symbolic string key: ite over key equality
		mv := m.(*mapVal)
		var alts []alt
		none := tTrue
		if mv != nil {
			for i, kk := range mv.keys {
				g := asBool(strEq(kk, k))
				alts = append(alts, alt{mkAnd(none, g), lookupRes(x, mv.vals[i], true)})
				none = mkAnd(none, mkNot(g))
			}
		}
		alts = append(alts, alt{none, lookupRes(x, zero(elemT), false)})
		return mergeAlts(alts)
	}
	if _, isArr := k.(array); isArr {
		// composite key: resolve by (possibly forking) element-wise comparison
		mv, _ := m.(*mapVal)
		if mv != nil {
			for i, kk := range mv.keys {
				if keyEq(kk, k) {
					return lookupRes(x, mv.vals[i], true)
				}
			}
		}
		return lookupRes(x, zero(elemT), false)
	}
	return transposeTuple(lift2(m, k, func(m, k value) value {
		mv, ok := m.(*mapVal)
		if !ok {
			panic(unsupported{"lookup in " + describe(m)})
		}
		if mv != nil {
			for i, kk := range mv.keys {
				if eqConc(kk, k) {
					return lookupRes(x, mv.vals[i], true)
				}
			}
		}
		return lookupRes(x, zero(elemT), false)
	}))
}

func lookupRes(x *ssa.Lookup, v value, ok bool) value {
	if x.CommaOk {
		return tuple{copyVal(v), ok}
	}
	return copyVal(v)
}

func transposeTuple(v value) value { return transpose(v) }

func doConvert(v value, from, to types.Type) value {
	fb, _ := from.Underlying().(*types.Basic)
	tb, _ := to.Underlying().(*types.Basic)
	switch {
	case fb != nil && tb != nil && fb.Info()&types.IsInteger != 0 && tb.Info()&types.IsInteger != 0:
		if t, ok := v.(*term); ok {
			if sizes.Sizeof(to) == 1 && sizes.Sizeof(from) == 1 {
				return t
			}
			panic(unsupported{"width-changing conversion of a symbolic byte"})
		}
		return lift1(v, func(x value) value { return wrapInt(to, x.(int64)) })
	case fb != nil && tb != nil && fb.Info()&types.IsString != 0 && tb.Info()&types.IsString != 0:
		return v
	case tb != nil && tb.Info()&types.IsString != 0 && fb != nil && fb.Info()&types.IsInteger != 0:
		return lift1(v, func(x value) value { return string(rune(x.(int64))) })
	case tb != nil && tb.Info()&types.IsString != 0:
		// []byte -> string
		if s, ok := v.(sliceVal); ok {
			return fromBytes(append([]value(nil), s.s...))
		}
	case fb != nil && fb.Info()&types.IsString != 0:
		// string -> []byte
		if _, ok := to.Underlying().(*types.Slice); ok {
			if u, isU := v.(*union); isU {
				v = splitUnion(u)
			}
			if t, isT := v.(*tab); isT {
				v = concretize(t)
			}
			b := toBytes(v)
			et := to.Underlying().(*types.Slice).Elem()
			if eb, ok := et.Underlying().(*types.Basic); ok && eb.Kind() == types.Uint8 {
				return sliceVal{append([]value(nil), b...), 1}
			}
		}
	}
	if _, ok := to.Underlying().(*types.Pointer); ok {
		return v
	}
	panic(unsupported{fmt.Sprintf("convert %s -> %s", from, to)})
}

func doTypeAssert(x *ssa.TypeAssert, v value) value {
	i, ok := v.(iface)
	if !ok {
		panic(unsupported{"type assert on " + describe(v)})
	}
	var match bool
	if _, isIface := x.AssertedType.Underlying().(*types.Interface); isIface {
		match = i.t != nil && types.Implements(i.t, x.AssertedType.Underlying().(*types.Interface))
		if x.CommaOk {
			if match {
				return tuple{i, true}
			}
			return tuple{iface{}, false}
		}
		if !match {
			panic(rtp("interface conversion failed"))
		}
		return i
	}
	match = i.t != nil && types.Identical(i.t, x.AssertedType)
	if x.CommaOk {
		if match {
			return tuple{i.v, true}
		}
		return tuple{zero(x.AssertedType), false}
	}
	if !match {
		panic(rtp("interface conversion failed"))
	}
	return i.v
}

type rangeIter struct {
	str  string
	m    *mapVal
	pos  int
	isMp bool
}

func doRange(v value) value {
	switch x := v.(type) {
	case string:
		return &rangeIter{str: x}
	case *mapVal:
		return &rangeIter{m: x, isMp: true}
	}
	panic(unsupported{"range over " + describe(v)})
}

func doNext(x *ssa.Next, it value) value {
	r := it.(*rangeIter)
	if r.isMp {
		// map iteration order is unspecified: the engine uses insertion order and flags the
		// dependence so that determinism checks can treat it as arbitrary
		stats.mapRanges++
		if r.m == nil || r.pos >= len(r.m.keys) {
			return tuple{false, nil, nil}
		}
		k, v := r.m.keys[r.pos], r.m.vals[r.pos]
		r.pos++
		return tuple{true, k, copyVal(v)}
	}
	if r.pos >= len(r.str) {
		return tuple{false, int64(0), int64(0)}
	}
	for i, c := range r.str[r.pos:] {
		_ = i
		p := r.pos
		r.pos += len(string(c))
		if c == 0xFFFD {
			r.pos = p + 1
		}
		return tuple{true, int64(p), int64(c)}
	}
	return tuple{false, int64(0), int64(0)}
}

func invoke(recv value, m *types.Func, args []value) value {
	if u, ok := recv.(*union); ok {
		recv = splitUnion(u)
	}
	i, ok := recv.(iface)
	if !ok {
		panic(unsupported{"invoke on " + describe(recv)})
	}
	if i.t == nil {
		panic(rtp("nil pointer dereference"))
	}
	if es, ok := i.v.(errString); ok && m.Name() == "Error" {
		return es.s
	}
	fn := prog.LookupMethod(i.t, m.Pkg(), m.Name())
	if fn == nil {
		panic(unsupported{"method not found: " + m.Name()})
	}
	return call(fn, append([]value{i.v}, args...), nil)
}

// errors.New result
type errString struct{ s value }

func doCall(fr *frame, c *ssa.CallCommon) value {
	if c.IsInvoke() {
		args := make([]value, 0, len(c.Args))
		for _, a := range c.Args {
			args = append(args, fr.get(a))
		}
		return invoke(fr.get(c.Value), c.Method, args)
	}
	args := make([]value, 0, len(c.Args))
	for _, a := range c.Args {
		args = append(args, fr.get(a))
	}
	switch f := c.Value.(type) {
	case *ssa.Builtin:
		return doBuiltin(fr, f, c, args)
	case *ssa.Function:
		return call(f, args, nil)
	}
	cv := fr.get(c.Value)
	if u, ok := cv.(*union); ok {
		cv = splitUnion(u)
	}
	cl, ok := cv.(*closure)
	if !ok {
		panic(unsupported{"call of " + describe(cv)})
	}
	if cl == nil {
		panic(rtp("nil pointer dereference"))
	}
	return call(cl.fn, args, cl.env)
}

func doBuiltin(fr *frame, f *ssa.Builtin, c *ssa.CallCommon, args []value) value {
	switch f.Name() {
	case "len":
		a := args[0]
		if isSym(a) {
			l := strLen(a)
			if u, ok := l.(*union); ok {
				// lengths differ between alternatives: fork
				_ = u
				nv := splitUnion(a)
				if s, ok := fr.fi.slots[c.Args[0]]; ok {
					fr.regs[s] = nv
				}
				return strLen(nv)
			}
			return l
		}
		return lift1(a, func(a value) value {
			switch s := a.(type) {
			case string:
				return int64(len(s))
			case sliceVal:
				return int64(len(s.s))
			case *mapVal:
				if s == nil {
					return int64(0)
				}
				return int64(len(s.keys))
			case array:
				return int64(len(s))
			}
			panic(unsupported{"len of " + describe(a)})
		})
	case "cap":
		switch s := args[0].(type) {
		case sliceVal:
			return int64(cap(s.s))
		}
		panic(unsupported{"cap of " + describe(args[0])})
	case "append":
		s, ok := args[0].(sliceVal)
		if !ok {
			panic(unsupported{"append to " + describe(args[0])})
		}
		st, _ := c.Args[0].Type().Underlying().(*types.Slice)
		var et types.Type
		if st != nil {
			et = st.Elem()
		}
		switch t := args[1].(type) {
		case sliceVal:
			return appendSlice(s, t.s, et)
		case string:
			return appendSlice(s, toBytes(t), et)
		case symStr:
			return appendSlice(s, t.b, et)
		}
		panic(unsupported{"append of " + describe(args[1])})
	case "copy":
		dst, ok := args[0].(sliceVal)
		if !ok {
			panic(unsupported{"copy to " + describe(args[0])})
		}
		var src []value
		switch t := args[1].(type) {
		case sliceVal:
			src = t.s
		case string:
			src = toBytes(t)
		case symStr:
			src = t.b
		default:
			panic(unsupported{"copy from " + describe(args[1])})
		}
		n := len(dst.s)
		if len(src) < n {
			n = len(src)
		}
		tmp := make([]value, n)
		for i := 0; i < n; i++ {
			tmp[i] = copyVal(src[i])
		}
		copy(dst.s, tmp)
		return int64(n)
	case "delete":
		m := args[0].(*mapVal)
		if m == nil {
			return nil
		}
		noteMapWrite(m)
		for i, kk := range m.keys {
			if eqConc(kk, args[1]) {
				m.keys = append(m.keys[:i:i], m.keys[i+1:]...)
				m.vals = append(m.vals[:i:i], m.vals[i+1:]...)
				break
			}
		}
		return nil
	case "close":
		ch, ok := args[0].(*chanVal)
		if !ok || ch == nil {
			panic(rtp("close of nil channel"))
		}
		if ch.closed {
			panic(rtp("close of closed channel"))
		}
		ch.closed = true
		return nil
	case "recover":
		return iface{} // no panic is in flight: engine-level panics end the path
	case "print", "println":
		rs.outputs = append(rs.outputs, "builtin "+f.Name())
		return nil
	case "min", "max":
		r := args[0].(int64)
		for _, a := range args[1:] {
			y := a.(int64)
			if f.Name() == "min" && y < r || f.Name() == "max" && y > r {
				r = y
			}
		}
		return r
	}
	panic(unsupported{"builtin " + f.Name()})
}
