"""Driver: turns a property definition (props.py) into engine jobs, runs them sharded over the
cores, replays solver models natively, applies the known-findings file, writes evidence."""
import json, os, sys, subprocess, time, shutil, glob, hashlib, re, atexit

VERIF = os.path.dirname(os.path.dirname(os.path.abspath(__file__)))
REPO = os.environ.get('VERIF_REPO', '/repo')
GOSYM = os.path.join(VERIF, 'bin', 'gosym')
NCPU = int(os.environ.get('VERIF_JOBS', '16'))
GOENV = dict(os.environ, GOFLAGS='-mod=mod', GOPROXY='off', GOSUMDB='off', GOTOOLCHAIN='local')


def log(*a):
    print(*a, flush=True)


class Work:
    def __init__(self, prop):
        self.dir = os.path.join(VERIF, '.work', '%s.%d' % (prop, os.getpid()))
        os.makedirs(self.dir, exist_ok=True)
        atexit.register(self.cleanup)

    def cleanup(self):
        if os.environ.get('VERIF_KEEP'):
            return
        shutil.rmtree(self.dir, ignore_errors=True)

    def path(self, name):
        return os.path.join(self.dir, name)


def ensure_engine():
    src = glob.glob(os.path.join(VERIF, 'engine', 'cmd', 'gosym', '*.go'))
    if os.path.exists(GOSYM) and all(os.path.getmtime(GOSYM) >= os.path.getmtime(s) for s in src):
        return
    r = subprocess.run(['go', 'build', '-o', GOSYM, './cmd/gosym'], cwd=os.path.join(VERIF, 'engine'), env=GOENV,
                       capture_output=True, text=True)
    if r.returncode != 0:
        log(r.stdout + r.stderr)
        raise SystemExit(inconclusive_exit('engine does not build'))


def inconclusive_exit(reason):
    log('INCONCLUSIVE reason=%s' % reason)
    return 2


# ---------------------------------------------------------------- engine

def run_engine(work, jobs, extra_flags=(), timeout=None, tag='jobs'):
    """jobs: list of dicts (id, harness, args, merge, pkg). Returns list of result dicts."""
    jf = work.path(tag + '.json')
    with open(jf, 'w') as f:
        json.dump(jobs, f)
    n = max(1, min(NCPU, len(jobs)))
    procs = []
    for i in range(n):
        out = work.path('%s.out.%d.jsonl' % (tag, i))
        cmd = [GOSYM, '-repo', REPO, '-harness', os.path.join(VERIF, 'harness'), '-jobs', jf,
               '-shard', '%d/%d' % (i, n), '-out', out] + list(extra_flags)
        procs.append((subprocess.Popen(cmd, stdout=subprocess.PIPE, stderr=subprocess.PIPE, text=True, env=GOENV), out))
    results, fatal = [], []
    deadline = time.time() + timeout if timeout else None
    for p, out in procs:
        try:
            so, se = p.communicate(timeout=None if deadline is None else max(1, deadline - time.time()))
        except subprocess.TimeoutExpired:
            p.kill()
            so, se = p.communicate()
            fatal.append('engine shard timed out')
        if p.returncode != 0:
            msg = [l for l in (so + '\n' + se).splitlines() if l.strip()]
            fatal.append('engine exit %s: %s' % (p.returncode, ' | '.join(msg[-6:])[:1500]))
        if os.path.exists(out):
            with open(out) as f:
                for line in f:
                    line = line.strip()
                    if line:
                        results.append(json.loads(line))
    done = {r['id'] for r in results}
    for j in jobs:
        if j['id'] not in done:
            fatal.append('job %s produced no result' % j['id'])
            break
    return results, fatal


# ---------------------------------------------------------------- native replay

class Runner:
    def __init__(self, work, race=False, pkg='spdxexp', internal=False):
        self.work = work
        self.pkg = pkg
        self.internal = internal
        self.tag = pkg + ('.int' if internal else '')
        self.bin = work.path('runner.%s.test' % self.tag + ('.race' if race else ''))
        self.race = race
        self.built = False
        self.err = None

    def build(self):
        if self.built:
            return self.err is None
        self.built = True
        hdir = os.path.join(VERIF, 'harness')
        repl = {}
        names = []
        srcs = sorted(glob.glob(os.path.join(hdir, self.pkg, '*.go')))
        if self.internal:
            srcs += sorted(glob.glob(os.path.join(hdir, self.pkg + '_internal', '*.go')))
        for f in srcs:
            repl[os.path.join(REPO, self.pkg, 'zz_verif_' + os.path.basename(f))] = f
            with open(f) as fh:
                names += re.findall(r'^func (VH_\w+)\(a \[\]string\)', fh.read(), re.M)
        reg = self.work.path('registry_%s_test.go' % self.tag)
        with open(reg, 'w') as fh:
            fh.write('//go:build verif\n\npackage %s\n\nvar vHarnesses = map[string]func([]string){\n' % ('main' if self.pkg == 'cmd' else self.pkg))
            for n in names:
                fh.write('\t"%s": %s,\n' % (n, n))
            fh.write('}\n')
        repl[os.path.join(REPO, self.pkg, 'zz_verif_registry_test.go')] = reg
        repl[os.path.join(REPO, self.pkg, 'zz_verif_runner_test.go')] = os.path.join(hdir, 'runner' if self.pkg == 'spdxexp' else 'runner_cmd', 'runner_test.go')
        ov = self.work.path('overlay.%s.json' % self.tag)
        with open(ov, 'w') as fh:
            json.dump({'Replace': repl}, fh)
        cmd = ['go', 'test', '-c', '-tags', 'verif', '-vet=off', '-overlay', ov, '-o', self.bin]
        if self.race:
            cmd.append('-race')
        cmd.append('./' + self.pkg)
        r = subprocess.run(cmd, cwd=REPO, env=GOENV, capture_output=True, text=True)
        if r.returncode != 0:
            self.err = (r.stdout + r.stderr)[-2000:]
            return False
        return True

    def run(self, reqs, timeout=600):
        """reqs: list of dict(id, harness, args, vector). Returns dict id -> response."""
        if not reqs:
            return {}
        if not self.build():
            raise RuntimeError('native runner does not build: ' + str(self.err))
        out = {}
        # a native crash (stack overflow, fatal error) kills the process: run in chunks and
        # bisect on failure
        def chunk(rs):
            inp, outp = self.work.path('replay.%s.in' % self.tag), self.work.path('replay.%s.out' % self.tag)
            with open(inp, 'w') as fh:
                for r in rs:
                    fh.write(json.dumps(r) + '\n')
            if os.path.exists(outp):
                os.remove(outp)
            env = dict(GOENV, VERIF_REPLAY_IN=inp, VERIF_REPLAY_OUT=outp)
            try:
                p = subprocess.run([self.bin, '-test.run', '^TestVerifReplay$', '-test.count=1', '-test.timeout', '%ds' % timeout],
                                   env=env, capture_output=True, text=True, cwd=self.work.dir, timeout=timeout + 30)
                rc, txt = p.returncode, p.stdout + p.stderr
            except subprocess.TimeoutExpired:
                rc, txt = -9, 'timeout'
            got = {}
            if os.path.exists(outp):
                with open(outp) as fh:
                    for line in fh:
                        try:
                            d = json.loads(line)
                            got[d['id']] = d
                        except Exception:
                            pass
            if rc != 0 and len(got) < len(rs):
                if len(rs) == 1:
                    got[rs[0]['id']] = {'id': rs[0]['id'], 'failed': [], 'reached': [], 'notes': {}, 'crash': txt[-1500:]}
                else:
                    h = len(rs) // 2
                    got = {}
                    got.update(chunk(rs[:h]))
                    got.update(chunk(rs[h:]))
            return got
        out.update(chunk(reqs))
        return out


# ---------------------------------------------------------------- known findings

def load_known():
    p = os.path.join(VERIF, 'known_findings.json')
    if not os.path.exists(p):
        return []
    with open(p) as f:
        return json.load(f).get('findings', [])


# ---------------------------------------------------------------- main flow

def vec_digest(v):
    return hashlib.sha1(json.dumps(v, sort_keys=True).encode()).hexdigest()[:10]


def describe_vec(vec):
    out = []
    for e in vec:
        if e['kind'] == 'int':
            out.append('%s=%d' % (e['name'], e.get('int', 0)))
        elif e['kind'] == 'bool':
            out.append('%s=%s' % (e['name'], e.get('bool', False)))
        else:
            try:
                b = bytes.fromhex(e.get('bytes', ''))
                out.append('%s=%r' % (e['name'], b.decode('latin-1')))
            except Exception:
                out.append('%s=?' % e['name'])
    return ' '.join(out)


def run_check(prop, tier, seed):
    import props
    t0 = time.time()
    spec = props.PROPS.get(prop)
    if spec is None:
        log('no check for property %s' % prop)
        return 2
    ensure_engine()
    work = Work(prop)
    # checks whose full bounds are cheap run them in both tiers (thorough then only adds the cross-checks)
    groups = spec['groups']('thorough' if spec.get('full_bounds_in_quick') else tier, seed)
    jobs, gof = [], {}
    for g in groups:
        for k, args in enumerate(g['jobs']):
            jid = '%s/%d' % (g['name'], k)
            j = {'id': jid, 'pkg': g.get('pkg', 'spdxexp'), 'harness': g['harness'], 'args': [str(a) for a in args],
                 'merge': g.get('merge', []), 'nomerge': g.get('nomerge', False), 'nofallback': bool(g.get('whole_table'))}
            jobs.append(j)
            gof[jid] = g
    # expensive groups first so that shards balance
    # expensive groups first; inside a group a fixed pseudo-random order, so that job kinds that
    # repeat with a period do not pile up on one shard
    order = sorted(range(len(jobs)), key=lambda i: (-gof[jobs[i]['id']].get('cost', 1), hashlib.sha1(jobs[i]['id'].encode()).hexdigest()))
    jobs = [jobs[i] for i in order]
    flags = ['-timeout', str(spec.get('solver_timeout_ms', 60000 if tier == 'quick' else 300000))]
    if spec.get('partition', True):
        flags.append('-partition')
    flags += ['-maxviol', str(spec.get('maxviol', 6)), '-jobtimeout', str(spec.get('job_timeout_s', 600 if tier == 'quick' else 3600))]
    log('[%s %s] %d jobs in %d groups, %d workers' % (prop, tier, len(jobs), len(groups), min(NCPU, len(jobs))))
    # harnesses that use library internals are loaded only for the groups that need them, so
    # that a refactoring of internals cannot take the public-API groups down with it
    jpub = [j for j in jobs if not gof[j['id']].get('internal')]
    jint = [j for j in jobs if gof[j['id']].get('internal')]
    results, fatal = [], []
    tmo = spec.get('engine_timeout_s', 3600 if tier == 'quick' else 6 * 3600)
    if jpub:
        r1, f1 = run_engine(work, jpub, flags, timeout=tmo, tag='jobs')
        results += r1; fatal += f1
    if jint:
        r2, f2 = run_engine(work, jint, flags + ['-internal'], timeout=tmo, tag='jobsint')
        results += r2; fatal += ['(internal-API harnesses) ' + x for x in f2]
    byid = {r['id']: r for r in results}

    inconcl = list(fatal)
    agg = dict(paths=0, completed=0, panics=0, infeasible=0, assume_failed=0, steps=0, sat=0, unsat=0, unknown=0, solver_s=0.0,
               merges=0, merged_paths=0, merge_fallbacks=0, two_var_relations=0, memo_hits=0, forks=0, slowest_query_s=0.0)
    asserts, panic_sites, partition = {}, {}, {'unsat': 0, 'other': 0, 'skipped': 0}
    outputs, gwrites, greads = set(), set(), set()
    funcs_run = set()
    for r in results:
        for k in agg:
            if k == 'slowest_query_s':
                agg[k] = max(agg[k], r.get(k, 0))
            else:
                agg[k] += r.get(k, 0)
        for a, st in r.get('asserts', {}).items():
            d = asserts.setdefault(a, dict(reached=0, violated=0, unknown=0, witnesses=[]))
            d['reached'] += st['reached']; d['violated'] += st['violated']; d['unknown'] += st['unknown']
            if st['reached'] > 0 and len(d['witnesses']) < spec.get('witness_replays', 400):
                d['witnesses'].append((r['id'], st.get('witness') or []))
        for s, n in (r.get('panic_sites') or {}).items():
            panic_sites[s] = panic_sites.get(s, 0) + n
        p = r.get('partition')
        if p == 'unsat':
            partition['unsat'] += 1
        elif p and p.startswith('skipped'):
            partition['skipped'] += 1
        elif p:
            partition['other'] += 1
        for x in r.get('inconclusive') or []:
            inconcl.append('%s: %s' % (r['id'], x))
        funcs_run.update(r.get('functions_encoded') or [])
        outputs.update(r.get('outputs') or []); gwrites.update(r.get('global_writes') or []); greads.update(r.get('mutable_global_reads') or [])

    gstats = {}
    for r in results:
        g = gof[r['id']]['name']
        d = gstats.setdefault(g, dict(jobs=0, paths=0, wall_s=0.0, solver_s=0.0, queries=0))
        d['jobs'] += 1; d['paths'] += r.get('paths', 0); d['wall_s'] += r.get('wall_s', 0); d['solver_s'] += r.get('solver_s', 0)
        d['queries'] += r.get('sat', 0) + r.get('unsat', 0) + r.get('unknown', 0)
    for g, d in gstats.items():
        d['wall_s'] = round(d['wall_s'], 1); d['solver_s'] = round(d['solver_s'], 1)
        if os.environ.get('VERIF_VERBOSE'):
            log('  group %-28s jobs=%-5d paths=%-7d cpu=%.0fs solver=%.0fs' % (g, d['jobs'], d['paths'], d['wall_s'], d['solver_s']))

    # cross-checks (thorough): a sample of jobs is re-run with other solvers and without merging;
    # the per-assertion verdicts must agree, anything else is inconclusive
    cross = {}
    if tier == 'thorough' and not fatal and not os.environ.get('VERIF_NO_CROSS'):
        cheap = sorted([r for r in results if not r.get('inconclusive')], key=lambda r: r.get('wall_s', 0))
        sample = [j for j in jobs if j['id'] in {r['id'] for r in cheap[:int(os.environ.get('VERIF_CROSS_N', '32'))]}]
        def verdicts(rs):
            return {r['id']: {a: (st['reached'] > 0, st['violated'] > 0) for a, st in r.get('asserts', {}).items()} for r in rs}
        base = verdicts([byid[j['id']] for j in sample])
        small = [j for j in sample if not j.get('nofallback') and gof[j['id']].get('cost', 1) <= 5]
        for label, xflags, xjobs in (('z3-new', ['-solver', 'z3-new'], sample), ('cvc5', ['-solver', 'cvc5'], small[:12]),
                                     ('no-merge', ['-nomerge'], small[:16])):
            if not xjobs:
                continue
            xr, xf = run_engine(work, xjobs, flags + xflags + (['-internal'] if any(gof[j['id']].get('internal') for j in xjobs) else []), timeout=600, tag='cross_' + label.replace('-', ''))
            if xf:
                cross[label] = dict(jobs=len(xjobs), status='not completed: ' + '; '.join(xf)[:200])
                continue
            xv = verdicts(xr)
            bad = [jid for jid in xv if xv[jid] != base.get(jid) and not next((r for r in xr if r['id'] == jid), {}).get('inconclusive')]
            unk = [r['id'] for r in xr if r.get('inconclusive')]
            cross[label] = dict(jobs=len(xjobs), agree=len(xv) - len(bad) - len(unk), disagree=bad[:5], inconclusive_there=len(unk))
            if bad:
                inconcl.append('cross-check %s disagrees with z3 on %s' % (label, bad[:3]))

    # vacuity: every expected assertion must have been reached on a feasible path
    for g in groups:
        for a in g.get('asserts', []):
            reached = sum(byid[j['id']]['asserts'].get(a, {}).get('reached', 0) for j in jobs if gof[j['id']] is g and j['id'] in byid)
            if reached == 0 and not fatal:
                inconcl.append('vacuous: assertion %s of group %s reached on no feasible path' % (a, g['name']))

    # candidates for native replay
    cands = []
    for r in results:
        g = gof[r['id']]
        for v in (r.get('violations') or []) if spec.get('assert_violations', True) else []:
            cands.append(dict(kind='assert', job=r, group=g, v=v))
        if g.get('panics_violate', spec.get('panics_violate', False)):
            for v in r.get('panic_witnesses') or []:
                cands.append(dict(kind='panic', job=r, group=g, v=v))
    nwit = spec.get('witness_replays', 40 if tier == 'quick' else 200)
    wits = []
    for a, d in sorted(asserts.items()):
        ws = d['witnesses']
        step = max(1, len(ws) // max(1, nwit // max(1, len(asserts)))) if len(ws) > nwit else 1
        for jid, w in ws[::step]:
            wits.append(dict(kind='witness', assert_id=a, job=byid[jid], group=gof[jid], v={'vector': w, 'assert': a}))
    reqs = {}
    for i, c in enumerate(cands + wits):
        c['rid'] = 'r%d' % i
        reqs.setdefault((c['group'].get('pkg', 'spdxexp'), bool(c['group'].get('internal'))), []).append(dict(id=c['rid'], harness=c['job']['harness'], args=c['job']['args'], vector=c['v']['vector']))
    resp = {}
    for (pkg, internal), rq in reqs.items():
        try:
            resp.update(Runner(work, race=bool(spec.get('race')), pkg=pkg, internal=internal).run(rq))
        except RuntimeError as e:
            inconcl.append(str(e)[:1500])
    validated = 0
    confirmed = {}   # signature -> record
    for c in cands:
        rp = resp.get(c['rid'])
        if rp is None:
            inconcl.append('no native replay result for a counterexample of %s' % c['job']['id'])
            continue
        notes = rp.get('notes') or {}
        aid = c['v']['assert']
        ok = False
        if rp.get('mismatch') and not (rp['mismatch'].startswith('replay vector exhausted') and aid in (rp.get('failed') or [])):
            # (running out of inputs after the assertion has already failed natively is fine: the
            # engine stops a path at a definitely failed assertion, the native harness runs on)
            inconcl.append('replay vector mismatch (%s) in %s' % (rp['mismatch'], c['job']['id']))
            continue
        if c['kind'] == 'panic':
            ok = bool(rp.get('panic')) or bool(rp.get('crash'))
        else:
            ok = aid in (rp.get('failed') or [])
            if ok and c['group'].get('lift') and notes.get('lift') != 'ok':
                # reproduced inside the unit harness only: not observable through the public API
                ok = False
                notes = dict(notes, lift='unrealizable')
            if not ok and spec.get('race') and (rp.get('race') or 'same-result-concurrently' in (rp.get('failed') or [])):
                ok = True   # frame breach confirmed natively as a data race / differing concurrent result
            if not ok and (rp.get('panic') or rp.get('crash')):
                # the native run panicked before reaching the assertion: a C03 matter, not this
                # property's; the counterexample is not confirmed for this assertion
                ok = False
        if ok:
            validated += 1
            if c['kind'] == 'panic':
                where = rp.get('panic_at', '') or c['v'].get('site', '')
                where = re.sub(r'^.*/spdxexp/', '', where)
                where = re.sub(r':\d+.*$', '', where)
                sig = '%s|no-panic|%s|%s' % (c['job']['harness'], c['v'].get('site', where), notes.get('sig', ''))
            else:
                sig = '%s|%s|%s' % (c['job']['harness'], aid, notes.get('sig', notes.get('text', describe_vec(c['v']['vector']))))
            if sig not in confirmed:
                confirmed[sig] = dict(sig=sig, assert_id=aid if c['kind'] != 'panic' else 'no-panic', harness=c['job']['harness'], args=c['job']['args'],
                                      pkg=c['group'].get('pkg', 'spdxexp'), internal=bool(c['group'].get('internal')), race=bool(spec.get('race')),
                                      vector=c['v']['vector'], notes=notes, panic=rp.get('panic'), panic_at=rp.get('panic_at'), count=0)
            confirmed[sig]['count'] += 1
        else:
            if notes.get('lift') == 'scan-differs' or notes.get('lift') == 'unrealizable':
                inconcl.append('unrealizable counterexample (harness under-constrained) for %s in %s: %s' % (aid, c['job']['id'], describe_vec(c['v']['vector'])))
            else:
                inconcl.append('solver model for %s does not reproduce natively in %s: %s notes=%s native=%s' % (
                    aid, c['job']['id'], describe_vec(c['v']['vector']), notes, {k: rp.get(k) for k in ('failed', 'panic', 'crash', 'assume_failed')}))
    wit_ok = 0
    for c in wits:
        rp = resp.get(c['rid'])
        if rp is None:
            continue
        if rp.get('mismatch') and rp['mismatch'].startswith('replay vector exhausted') and c['assert_id'] in (rp.get('reached') or []) \
                and c['assert_id'] not in (rp.get('failed') or []):
            # the witness is the input prefix that reaches the assertion; later inputs are not part of it
            wit_ok += 1
            validated += 1
        elif rp.get('mismatch'):
            inconcl.append('witness replay mismatch (%s) in %s' % (rp['mismatch'], c['job']['id']))
        elif spec.get('race') and rp.get('race'):
            validated += 1
            sig = '%s|data-race|%s' % (c['job']['harness'], (rp.get('notes') or {}).get('text', ''))
            confirmed.setdefault(sig, dict(sig=sig, assert_id='no-data-race', harness=c['job']['harness'], args=c['job']['args'], vector=c['v']['vector'],
                                           notes=rp.get('notes') or {}, panic=None, panic_at=None, count=0, race_report=(rp.get('output') or '')[:1500]))['count'] += 1
        elif rp.get('panic') or rp.get('crash'):
            inconcl.append('native run panics on a reachability witness the engine completed (%s): %s' % (c['job']['id'], (rp.get('panic') or rp.get('crash'))[:200]))
        elif rp.get('assume_failed'):
            inconcl.append('native run rejects an assumption the engine accepted (%s, %s)' % (c['job']['id'], describe_vec(c['v']['vector'])))
        elif c['assert_id'] in (rp.get('failed') or []):
            inconcl.append('engine/native disagreement: %s fails natively on a witness the engine passed (%s, %s)' % (
                c['assert_id'], c['job']['id'], describe_vec(c['v']['vector'])))
        elif c['assert_id'] in (rp.get('reached') or []) or (rp.get('notes') or {}).get('lift') or c['group'].get('lift'):
            wit_ok += 1
            validated += 1
            if c['group'].get('compare_notes'):
                en, nn = c['job'].get('notes') or {}, rp.get('notes') or {}
                for k in sorted(set(en) | set(k for k in nn if k.startswith('eq:'))):
                    if en.get(k) != nn.get(k):
                        inconcl.append('translator validation: %s differs on %s: engine=%r native=%r' % (k, c['job']['args'], en.get(k), nn.get(k)))
        else:
            inconcl.append('native run does not reach %s on its witness (%s)' % (c['assert_id'], c['job']['id']))

    # C13: cold start under concurrency, in a fresh process built with the race detector
    if spec.get('race') and not fatal:
        try:
            cold = Runner(work, race=True)
            if cold.build():
                for attempt in range(3):
                    p = subprocess.run([cold.bin, '-test.run', '^TestVerifColdStart$', '-test.count=1', '-test.timeout', '300s'],
                                       env=dict(GOENV, VERIF_COLD='1'), capture_output=True, text=True, cwd=work.dir, timeout=400)
                    txt = p.stdout + p.stderr
                    validated += 1
                    if 'DATA RACE' in txt or 'COLD-MISMATCH' in txt:
                        what = 'data race' if 'DATA RACE' in txt else 'results differ'
                        sig = 'cold-start|%s' % what
                        confirmed[sig] = dict(sig=sig, assert_id='no-data-race-cold-start', harness='TestVerifColdStart', args=[], vector=[], pkg='spdxexp', internal=False, race=True,
                                              notes={'text': 'first calls from 16 goroutines in a fresh process: ' + what}, panic=None, panic_at=None, count=1, kind='coldstart',
                                              report=txt[-1800:])
                        break
            else:
                inconcl.append('race-enabled runner does not build: ' + str(cold.err)[:300])
        except Exception as e:
            inconcl.append('cold-start run failed: %r' % (e,))

    # known findings
    known = [k for k in load_known() if k.get('property') == prop and k.get('status', 'open') == 'open']
    violations, known_seen = [], []
    for sig, rec in sorted(confirmed.items()):
        hit = None
        for k in known:
            if k.get('signature') == sig or (k.get('signature_re') and re.search(k['signature_re'], sig)):
                hit = k
                break
        if hit:
            known_seen.append((hit, rec))
        else:
            violations.append(rec)
    printed = set()
    for k, rec in known_seen:
        key = k.get('signature') or k.get('signature_re')
        if key not in printed:
            printed.add(key)
            log('KNOWN-FINDING: property=%s %s' % (prop, k.get('what', rec['sig'])))

    rc = 0
    os.makedirs(os.path.join(VERIF, 'evidence', 'replays'), exist_ok=True)
    for old in glob.glob(os.path.join(VERIF, 'evidence', 'replays', prop + '-*.json')):
        os.remove(old)
    for i, rec in enumerate(violations[:20]):
        rp = os.path.join(VERIF, 'evidence', 'replays', '%s-%d.json' % (prop, i))
        with open(rp, 'w') as f:
            json.dump(dict(property=prop, **rec), f, indent=1)
        log('VIOLATION property=%s replay=%s' % (prop, rp))
        log('  %s: %s %s' % (rec['assert_id'], rec['notes'].get('text', ''), describe_vec(rec['vector'])))
        rc = 1
    if inconcl and rc == 0:
        rc = 2
        for x in inconcl[:12]:
            log('INCONCLUSIVE reason=%s' % x.replace('\n', ' ')[:600])

    wall = time.time() - t0
    samples = []
    for c in (cands[:3] + wits[:5]):
        rp = resp.get(c['rid']) or {}
        samples.append(dict(kind=c['kind'], harness=c['job']['harness'], args=c['job']['args'], inputs=describe_vec(c['v']['vector']),
                            text=(rp.get('notes') or {}).get('text')))
    if not samples:
        samples = [dict(kind='job', harness=j['harness'], args=j['args']) for j in jobs[:3]]
    funcs = spec.get('functions', [])
    ev = dict(
        property_id=prop, tier=tier, seed=seed, level='model_checking', wall_s=round(wall, 2), violations=len(violations),
        coverage=dict(
            states=agg['completed'] + agg['panics'] + agg['assume_failed'],
            transitions=agg['steps'],
            traces_validated_against_impl=validated,
            samples=samples,
            exhaustive=(rc == 0),
            exhaustive_within_bounds=(rc == 0),
            technique='bounded symbolic execution of go/ssa for the real functions; every assertion decided by z3 over all values of the symbolic inputs within the bounds',
            functions_encoded=sorted(funcs_run) or funcs,
            functions_listed_in_design=funcs,
            bounds=[dict(group=g['name'], harness=g['harness'], jobs=len(g['jobs']), bound=g.get('bound', ''), symbolic=g.get('symbolic', '')) for g in groups],
            outside_bounds=spec.get('outside', ''),
            paths=dict(total=agg['paths'], completed=agg['completed'], panicking=agg['panics'], infeasible=agg['infeasible'], assume_failed=agg['assume_failed']),
            queries=dict(total=agg['sat'] + agg['unsat'] + agg['unknown'], sat=agg['sat'], unsat=agg['unsat'], unknown=agg['unknown']),
            solver=dict(name='z3', version=z3_version(), time_s=round(agg['solver_s'], 2), slowest_query_s=round(agg['slowest_query_s'], 3), tactic='check-sat-using qfbv'),
            merged_calls=dict(merges=agg['merges'], merged_paths=agg['merged_paths'], fallbacks=agg['merge_fallbacks']),
            two_variable_relations=agg['two_var_relations'],
            assert_sites={a: dict(reached=d['reached'], violated=d['violated'], unknown=d['unknown']) for a, d in asserts.items()},
            reach_witnesses_replayed=wit_ok,
            counterexamples_replayed=len(cands),
            panic_paths=dict(total=agg['panics'], sites=panic_sites, counted_as_violation=bool(spec.get('panics_violate', False))),
            partition_check=partition,
            cross_checks=cross,
            group_stats=gstats,
            known_findings_seen=[k.get('what') for k, _ in known_seen],
            inconclusive=inconcl[:20],
            stubs=spec.get('stubs', STUBS),
            effects=dict(outputs=sorted(outputs), global_writes=sorted(gwrites), mutable_global_reads=sorted(greads)),
        ),
        assumptions=spec.get('assumptions', []) + COMMON_ASSUMPTIONS,
    )
    os.makedirs(os.path.join(VERIF, 'evidence'), exist_ok=True)
    with open(os.path.join(VERIF, 'evidence', prop + '.json'), 'w') as f:
        json.dump(ev, f, indent=1)
    log('[%s %s] paths=%d (panicking %d, infeasible %d) queries=%d (sat %d unsat %d unknown %d) solver=%.1fs native_replays=%d wall=%.1fs -> exit %d' % (
        prop, tier, agg['paths'], agg['panics'], agg['infeasible'], agg['sat'] + agg['unsat'] + agg['unknown'], agg['sat'], agg['unsat'], agg['unknown'],
        agg['solver_s'], validated, wall, rc))
    return rc


STUBS = ['errors.New: fresh error value', 'strings.HasPrefix/HasSuffix/EqualFold/ToLower: exact byte-wise (ASCII fold) models',
         'regexp.Compile+FindStringIndex: class*/class+ patterns with ASCII classes, leftmost-longest', 'sort.Slice: insertion sort as in Go for len<=12, real comparator',
         'fmt.Sprintf: %s %d %c %v', 'append: runtime growslice capacity model']
COMMON_ASSUMPTIONS = [
    'go/packages + go/ssa give the semantics of the source (the IR is the compiler front end\'s)',
    'the engine\'s interpretation of ~30 SSA instruction kinds and its intrinsics (validated by native replay of every counterexample and of sampled reachability witnesses)',
    'z3 4.8.12 verdicts (sat answers are replayed natively; unsat answers are trusted)',
    'inputs outside the stated bounds are not covered',
]

_z3v = None


def z3_version():
    global _z3v
    if _z3v is None:
        try:
            _z3v = subprocess.run(['z3', '--version'], capture_output=True, text=True).stdout.strip()
        except Exception:
            _z3v = 'unknown'
    return _z3v


def replay_file(path):
    with open(path) as f:
        rec = json.load(f)
    ensure_engine()
    work = Work('replay')
    if rec.get('kind') == 'coldstart':
        cold = Runner(work, race=True)
        if not cold.build():
            log('runner does not build')
            return 2
        p = subprocess.run([cold.bin, '-test.run', '^TestVerifColdStart$', '-test.count=1'], env=dict(GOENV, VERIF_COLD='1'), capture_output=True, text=True, cwd=work.dir)
        txt = p.stdout + p.stderr
        log(txt[-2000:])
        if 'DATA RACE' in txt or 'COLD-MISMATCH' in txt:
            log('VIOLATION property=%s replay=%s' % (rec.get('property'), path))
            return 1
        log('not reproduced on the current tree')
        return 0
    runner = Runner(work, pkg=rec.get('pkg', 'spdxexp'), internal=bool(rec.get('internal')), race=bool(rec.get('race')))
    rp = runner.run([dict(id='r0', harness=rec['harness'], args=rec['args'], vector=rec['vector'])]).get('r0', {})
    log(json.dumps(rp, indent=1))
    failed = rp.get('failed') or []
    if rec.get('assert_id') == 'no-panic':
        bad = bool(rp.get('panic') or rp.get('crash'))
    else:
        bad = rec.get('assert_id') in failed
    if bad:
        log('VIOLATION property=%s replay=%s' % (rec.get('property'), path))
        return 1
    log('not reproduced on the current tree')
    return 0


def main(argv):
    if len(argv) >= 2 and argv[0] == '--replay':
        return replay_file(argv[1])
    if len(argv) < 1:
        log(__doc__)
        return 2
    prop = argv[0]
    tier = argv[1] if len(argv) > 1 else os.environ.get('VERIF_TIER', 'quick')
    seed = int(os.environ.get('VERIF_SEED', '0') or 0)
    try:
        return run_check(prop, tier, seed)
    except SystemExit as e:
        return e.code if isinstance(e.code, int) else 2
