"""Property definitions: which harness jobs decide which property at which bounds."""


def grp(name, harness, jobs, **kw):
    d = dict(name=name, harness=harness, jobs=jobs)
    d.update(kw)
    return d


PARSE_FUNCS = ['parse', 'parseTokens', 'parseExpression', 'parseAnd', 'parseAtom', 'parseParenthesizedExpression', 'parseLicenseRef',
               'parseLicense', 'parseOperator', 'parseWith', 'peek', 'next', 'hasMore']


def g_parse_tokens(nmax, **kw):
    return grp('L-PARSE', 'VH_parseTokens', [[n] for n in range(1, nmax + 1)],
               bound='all token sequences of length <= %d over 12 token classes' % nmax,
               symbolic='token class per position (choice variable, 12 values)',
               asserts=['accept-iff-grammar', 'node-xor-error'], cost=10, **kw)


def c03(tier, seed):
    n = 6 if tier == 'quick' else 8
    return [g_parse_tokens(n)]


def c05(tier, seed):
    n = 6 if tier == 'quick' else 8
    return [g_parse_tokens(n)]


PROPS = {
    'C03': dict(groups=c03, panics_violate=True, functions=PARSE_FUNCS,
                outside='token sequences longer than the bound; stack or memory exhaustion on very long or deeply nested text'),
    'C05': dict(groups=c05, functions=PARSE_FUNCS,
                outside='token sequences longer than the bound'),
}
