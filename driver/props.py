"""Property definitions: which harness jobs decide which property at which bounds."""


def grp(name, harness, jobs, **kw):
    d = dict(name=name, harness=harness, jobs=jobs)
    d.update(kw)
    return d


PARSE_FUNCS = ['parse', 'parseTokens', 'parseExpression', 'parseAnd', 'parseAtom', 'parseParenthesizedExpression', 'parseLicenseRef',
               'parseLicense', 'parseOperator', 'parseWith', 'peek', 'next', 'hasMore']


def g_parse_tokens(nmax, **kw):
    jobs = [[n, '-'] for n in range(1, min(nmax, 6) + 1)] + [[n, c] for n in range(7, nmax + 1) for c in range(12)]
    return grp('L-PARSE', 'VH_parseTokens', jobs,
               bound='all token sequences of length <= %d over 12 token classes' % nmax,
               symbolic='token class per position (choice variable, 12 values)',
               asserts=['accept-iff-grammar', 'node-xor-error'], cost=10, internal=True, **kw)


ML = ['inLicenseList']
LEX_FUNCS = ['scan', 'hasMore', 'parseToken', 'readRegex', 'read', 'skipWhitespace', 'readOperator', 'readID', 'readDocumentRef', 'readLicenseRef',
             'readLicense', 'normalizeLicense', 'licenseLookup', 'deprecatedLicenseLookup', 'activeLicense', 'deprecatedLicense', 'exceptionLicense', 'inLicenseList']
LEX_ID_ASSERTS = ['error-only-for-unknown-id', 'unknown-id-rejected', 'token-role', 'exception-token-iff-exception-id', 'token-equals-reference', 'only-suffix-stripped',
                  'plus-folded-into-or-later', 'or-later-rewritten-to-plus', 'list-spelling-active', 'unread-input-preserved', 'index-in-range']


def g_lex(tier, seed, **kw):
    mmax = 24 if tier == 'quick' else 47
    shapes = [(0, 0), (0, 1), (2, 2)] if tier == 'quick' else [(0, 0), (0, 1), (1, 1), (2, 2), (1, 3), (2, 0)]
    idj = [[p, m, c] for m in range(1, mmax + 1) for (p, c) in shapes]
    kw = dict(kw, lift=True, internal=True)
    gs = [grp('L-LEX/id', 'VH_lexID', idj, merge=ML, cost=12,
              bound='one scanner step on a run of m <= %d id characters at index p with c following bytes, (p,c) in %s' % (mmax, shapes),
              symbolic='all bytes of the buffer', asserts=LEX_ID_ASSERTS, **kw)]
    rj = [[p, w, m, c] for p in (0, 2) for w in 'DL' for m in (0, 1, 3, 6) for c in (0, 1, 2)]
    gs.append(grp('L-LEX/ref', 'VH_lexRef', rj, cost=1, bound='DocumentRef-/LicenseRef- followed by m in {0,1,3,6} id characters', symbolic='all other bytes',
                  asserts=['missing-id-rejected', 'ref-accepted', 'ref-id-verbatim', 'unread-input-preserved'], **kw))
    oj = [[p, k, c] for p in (0, 1, 2) for k in range(7) for c in (0, 1, 2)]
    gs.append(grp('L-LEX/operator', 'VH_lexOp', oj, cost=1, bound='each operator at index p in {0,1,2} followed by 0-2 bytes', symbolic='bytes before and after',
                  asserts=['operator-accepted', 'plus-after-space-rejected', 'token-equals-reference', 'unread-input-preserved'], **kw))
    gs.append(grp('L-LEX/stray', 'VH_lexOther', [[p, c] for p in (0, 1, 2) for c in (0, 1, 2)], cost=1, bound='a byte that starts no lexeme', symbolic='all bytes',
                  asserts=['stray-byte-rejected'], **kw))
    gs.append(grp('L-LEX/spaces', 'VH_lexSkip', [[n, p] for n in range(0, 6) for p in range(0, n + 1)], cost=1, bound='buffers of <= 5 bytes', symbolic='all bytes',
                  asserts=['index-in-range', 'buffer-unchanged'], **kw))
    return gs


def g_bytes(lmax, **kw):
    jobs = [[l, -1] for l in range(0, min(lmax, 2) + 1)] + [[l, sh] for l in range(3, lmax + 1) for sh in range(16)]
    return grp('E2E/bytes', 'VH_bytes', jobs, cost=50, merge=ML,
               bound='every byte string of length <= %d through ValidateLicenses, ExtractLicenses, Satisfies' % lmax, symbolic='all bytes (256 values each)',
               asserts=['flag-iff-none-invalid', 'extract-err-iff-invalid', 'satisfies-err-iff-invalid', 'false-or-nil-on-error', 'empty-list-errs'], **kw)


def g_render(nmax, **kw):
    return grp('render', 'VH_renderTokens', [[n, st] for n in range(1, nmax + 1) for st in ('tight', 'single', 'loose')], cost=20,
               bound='every sequence of <= %d token classes rendered in tight / single / loose spacing' % nmax,
               symbolic='token classes (forked: the text must be concrete)', asserts=['accept-iff-grammar', 'extract-err-iff-invalid', 'satisfies-err-iff-invalid', 'lower-case-operator-rejected'], **kw)


def c03(tier, seed):
    q = tier == 'quick'
    gs = [g_parse_tokens(7 if q else 9), g_bytes(4 if q else 5), g_render(3 if q else 4)]
    gs += g_lex(tier, seed)
    gs.append(grp('arg-shapes', 'VH_argShapes', [[]], cost=1, bound='nil / empty slices, empty strings', symbolic='none', asserts=['empty-list-errs']))
    gs.append(grp('pool-lists', 'VH_lists', [[n] for n in range(0, 3 if q else 4)], merge=['parse', 'inLicenseList'], cost=5,
                  bound='lists of <= %d strings from a pool of 27 valid / compound / invalid strings' % (2 if q else 3), symbolic='list elements', asserts=[]))
    # L-SAT trees of all kinds: the expansion code
    for name, jobs, n, m, cost in sat_jobs(tier, seed):
        if name in ('n2', 'n3', 'n4', 'n5'):
            gs.append(grp('L-SAT/' + name, 'VH_sat', jobs if not q else [j for i, j in enumerate(jobs) if i % 3 == seed % 3 or set(j[1]) <= set('RrD')], merge=MS, cost=cost, bound='%d-leaf trees of all kinds' % n, symbolic='allowed entries', asserts=[]))
    return gs


def c04(tier, seed):
    q = tier == 'quick'
    return [g_bytes(4 if q else 5), g_render(3 if q else 4),
            grp('pool-flags', 'VH_poolKinds', [[]], cost=1, bound='the 27 pool strings', symbolic='pool index (forked)', asserts=['pool-flag-valid']),
            grp('lists', 'VH_lists', [[n] for n in range(0, 4 if q else 5)], merge=['parse', 'inLicenseList'], cost=10,
                bound='lists of <= %d strings from a pool of 27 valid / compound / invalid strings' % (3 if q else 4), symbolic='list elements (choice variables over the pool)',
                asserts=['flag-iff-none-invalid', 'invalid-elements-in-order', 'args-unchanged']),
            grp('arg-shapes', 'VH_argShapes', [[]], cost=1, bound='nil / empty slices, empty strings', symbolic='none', asserts=['empty-list-errs'])]


def g_nonascii(**kw):
    return grp('non-ascii-spellings', 'VH_nonASCII', [[l, w] for l in ('active', 'deprecated', 'exception') for w in '012'], merge=['parse', 'inLicenseList'], cost=3,
               bound='every listed id containing s/S or k/K, re-spelled with U+017F / U+212A (letters that case-fold to ASCII)',
               symbolic='list index (choice variable); the bytes themselves are concrete', asserts=['non-ascii-spelling-rejected'], **kw)


def g_refshapes(n):
    return grp('ref-idstring-shapes', 'VH_refShapes', [[w, str(n)] for w in ('lic', 'doc', 'ctx')], cost=5,
               bound='every reference name of 1..%d bytes over {a, Z, 9, -, .} as LicenseRef-<name>, DocumentRef-<name>:LicenseRef-x and after MIT OR' % n,
               symbolic='index into the table of names (choice variable, concretised per path); bytes concrete', asserts=['ref-idstring-accepted'])


def c05(tier, seed):
    q = tier == 'quick'
    return [g_parse_tokens(7 if q else 9), g_render(3 if q else 4), g_nonascii(), g_refshapes(3)] + g_lex(tier, seed)


def c13(tier, seed):
    q = tier == 'quick'
    gs = []
    tj = []
    for n in (1, 2, 3) if q else (1, 2, 3, 4):
        ts = trees(n)
        for enc in ts:
            for k in (['L' * n, ('RW' * 2)[:n]] if n < 4 else ['L' * n]):
                tj.append([enc, k, ''.join(str(i) for i in range(n)), 'M', 2 if n < 3 else 3])
    gs.append(grp('pure/trees', 'VH_pureTree', tj, merge=MS, cost=5, bound='valid expressions of <= %d leaves, allowed lists of 2-3 symbolic entries' % (3 if q else 4),
                  symbolic='allowed entries', asserts=['args-unchanged', 'same-result-twice', 'same-result-after-related-calls', 'no-output']))
    gs.append(grp('pure/pool', 'VH_purePool', [[n] for n in range(0, 3 if q else 4)], merge=['parse', 'inLicenseList', 'getLicenseRange', 'isCompatible'], cost=20,
                  bound='expression and list elements from the 27-string pool, lists of <= %d' % (2 if q else 3), symbolic='expression and list elements (choice variables)',
                  asserts=['args-unchanged', 'same-result-twice', 'same-result-after-related-calls', 'no-output']))
    gs.append(grp('pure/bytes', 'VH_pureBytes', [[l] for l in range(0, 3 if q else 4)], cost=20, bound='byte strings of length <= %d' % (2 if q else 3),
                  symbolic='all bytes', asserts=['args-unchanged', 'same-result-twice', 'same-result-after-related-calls', 'no-output']))
    return gs


UNITS = ['MIT AND ', '(', 'GPL-2.0-or-later OR ', 'Apache-2.0-or-later AND ', 'Apache-2.0+ AND ', '(LicenseRef-a OR ', 'mit-or-later AND ( ',
         'ISC-or-later  OR ', 'DocumentRef-d:LicenseRef-r AND   ', 'MIT-only OR ', 'GPL-2.0+ WITH Bison-exception-2.2 AND ', 'Zlib-or-later WITH LLVM-exception OR ']


def c15(tier, seed):
    q = tier == 'quick'
    prefixes = [''] + UNITS + [a + b for a in UNITS for b in UNITS] + ['  ', ' ( ', '   MIT AND ', '  Apache-2.0-or-later OR ']
    if not q:
        prefixes += [a + b + c for a in UNITS[2:6] for b in UNITS[2:6] for c in UNITS[2:6]]
    else:
        prefixes = prefixes[:13] + prefixes[13:-4][seed % 3::3] + prefixes[-4:]
    jobs = []
    for pre in prefixes:
        for k in (1, 2, 3) if q else (1, 2, 3, 4):
            jobs.append([pre, k, 'id'])
        jobs.append([pre, 1, 'stray'])
        for k in (0, 1):
            jobs.append([pre, k, 'ref'])
            jobs.append([pre, k, 'docref'])
    return [grp('offsets', 'VH_offsets', jobs, merge=ML, cost=10,
                bound='%d valid prefixes (sequences of <= %d units with -or-later rewrites, +, WITH, spaces, parentheses, references) followed by an unknown id of <= %d symbolic id characters, a stray byte, or a truncated reference; each culprit is then presented again at the start of a string' % (len(prefixes), 2 if q else 3, 3 if q else 4),
                symbolic='the bytes of the culprit', asserts=['offset-in-range', 'lexeme-at-offset', 'missing-id-offset'])]


M = ['parse', 'getLicenseRange', 'inLicenseList']
MATCH_FUNCS = ['Satisfies', 'parse', 'scan', 'stringsToNodes', 'sortAndDedup', 'expand', 'isCompatible', 'licensesAreCompatible', 'licenseRefsAreCompatible',
               'exceptionsAreCompatible', 'licensesExactlyEqual', 'rangesAreCompatible', 'identifierInRange', 'rangesEqual', 'compareGT', 'compareEQ',
               'sameLicenseGroup', 'getLicenseRange', 'simplifyLicense', 'reconstructedLicenseString', 'spdxlicenses.LicenseRanges', 'inLicenseList',
               'normalizeLicense', 'licenseLookup', 'deprecatedLicenseLookup', 'readLicense', 'readID', 'readRegex', 'readOperator', 'parseLicense', 'parseWith']
EXC = ['Bison-exception-2.2', 'Classpath-exception-2.0', 'LLVM-exception', 'GCC-exception-3.1', 'Autoconf-exception-3.0', 'OCaml-LGPL-linking-exception']


def pick_exc(seed):
    return EXC[seed % len(EXC)], EXC[(seed + 1) % len(EXC)]


def c02(tier, seed):
    e1, e2 = pick_exc(seed)
    jobs = []
    excs = [('-', '-'), (e1, e1), (e1, e2), (e1, '-'), ('-', e1)]
    if tier == 'thorough':
        excs += [(e2, e2), (e2, e1), (e2, '-'), ('-', e2)]
    for pa in '01':
        for pb in '01':
            for ea, eb in excs:
                jobs.append(['L', pa, ea, 'L', pb, eb])
    gs = [grp('L-MATCH/license-license', 'VH_match', jobs, merge=M, whole_table=True, cost=30,
              bound='all ordered pairs of the %s ids a term can carry (active + deprecated), each plain or with +, exception none / same / different (2 seed-chosen exception ids)' % 'listed',
              symbolic='two ids (choice variables over the whole lists)',
              asserts=['valid-terms-accepted', 'match-iff-documented', 'match-symmetric', 'match-reflexive'])]
    rj = [['R', '0', '-', 'R', '0', '-']]
    for p in '01':
        rj += [['L', p, '-', 'R', '0', '-'], ['R', '0', '-', 'L', p, '-'], ['L', p, e1, 'R', '0', '-']]
    gs.append(grp('L-MATCH/refs', 'VH_match', rj, merge=M, whole_table=True, cost=3,
                  bound='7 LicenseRef / DocumentRef:LicenseRef texts against each other and against every license id',
                  symbolic='reference text (choice variable), license id (choice variable)',
                  asserts=['valid-terms-accepted', 'match-iff-documented', 'match-symmetric', 'match-reflexive']))
    ids12 = ['MIT', 'GPL-2.0-only', 'GPL-3.0-only', 'GPL-2.0-or-later', 'Apache-2.0', 'LGPL-2.1', 'AGPL-1.0', 'CECILL-2.1', 'MPL-2.0', 'BSD-3-Clause', 'OLDAP-2.2.1', 'GPL-2.0']
    ej = []
    for k, ia in enumerate(ids12):
        for ib in ([ia, ids12[(k + 1) % 12]] if tier == 'quick' else ids12):
            for pa, pb in (('0', '0'), ('1', '0')) if tier == 'quick' else (('0', '0'), ('1', '0'), ('0', '1'), ('1', '1')):
                ej.append([ia, pa, ib, pb])
    gs.append(grp('L-MATCH/all-exceptions', 'VH_matchExc', ej, merge=M, cost=4,
                  bound='%d id pairs from a 12-id universe, the exception on each side over all listed exception ids or none' % len(ej),
                  symbolic='exception on each side (choice variables over the whole exception list + none)', asserts=['valid-terms-accepted', 'exception-must-agree']))
    return gs


def c08(tier, seed):
    e1, e2 = pick_exc(seed)
    gs = []
    jobs = []
    for pair in ('plus', 'only'):
        for role in ('term', 'allowed'):
            for py in '01':
                for ex, ey in (('-', '-'), (e1, e1)) if tier == 'quick' else (('-', '-'), (e1, e1), (e1, '-'), (e1, e2)):
                    jobs.append([pair, 'bare', role, py, ex, ey])
        for ctx in ('paren', 'and', 'andparen', 'or'):
            jobs.append([pair, ctx, 'valid', '0', '-', '-'])
            jobs.append([pair, ctx, 'valid', '0', e1, '-'])
        for ctx in ('aftersuffix', 'afteronly', 'afterref', 'beforesuffix'):
            jobs.append([pair, ctx, 'valid', '0', '-', '-'])
            jobs.append([pair, ctx, 'term', '1', '-', '-'])
        jobs.append([pair, 'paren', 'term', '0', '-', '-'])
        jobs.append([pair, 'andparen', 'term', '1', '-', '-'])
    gs.append(grp('spellings', 'VH_spell', jobs, merge=M, whole_table=True, cost=40,
                  bound='X over all listed ids, both spellings valid; Y over all listed ids with/without +, with/without exception; contexts bare, (..), .. AND MIT, (MIT AND ..), MIT OR .., and after / before terms that carry the suffix text themselves (GPL-2.0-or-later OR .., LGPL-2.1-only AND .., LicenseRef-a-or-later-only OR .., .. OR GPL-3.0-or-later AND LGPL-2.1-only)',
                  symbolic='ids X and Y (choice variables over the whole lists)', asserts=['same-validity', 'spellings-interchangeable']))
    cj = [[pair, op, e1, py] for pair in ('plus', 'only') for op in ('AND', 'OR') for py in '01']
    gs.append(grp('spellings-in-compound', 'VH_spellCtx', cj, merge=MS, cost=20, whole_table=True,
                  bound='"S op X WITH e" against [Y, Y WITH e], X and Y over all listed ids, op AND / OR, Y with and without +',
                  symbolic='ids X and Y (choice variables over the whole lists)', asserts=['same-validity', 'spellings-interchangeable']))
    gs.append(grp('both-valid', 'VH_bothValid', [['plus'], ['only']], merge=M, whole_table=True, cost=5,
                  bound='every active id', symbolic='id (choice variable)', asserts=['both-spellings-valid']))
    return gs


def n_ids():
    import re, os
    from core import REPO
    def cnt(f):
        return len(re.findall(r'^\t\t"', open(os.path.join(REPO, 'spdxexp/spdxlicenses', f)).read(), re.M))
    return cnt('get_licenses.go'), cnt('get_deprecated.go'), cnt('get_exceptions.go')


def c09(tier, seed):
    na, nd, ne = n_ids()
    step = 16
    jobs = []
    for lo in range(0, na + nd + 8, step):
        jobs.append(['ids', lo, lo + step - 1, 'plain'])
    vj = []
    for lo in range(0, na + nd + 8, step):
        vj.append(['ids', lo, lo + step - 1, 'plus'])
        vj.append(['ids', lo, lo + step - 1, 'with'])
    ej = [['exception', lo, lo + step - 1, 'plain'] for lo in range(0, ne + 8, step)]
    dj = [['deprecated', lo, lo + step - 1, 'plain'] for lo in range(0, nd + 8, step)]
    gs = [grp('case/licenses', 'VH_case', jobs, cost=5, bound='every id a term can carry, all 2^letters case masks',
              symbolic='one boolean per letter of the id', asserts=['case-variant-valid', 'extract-canonical', 'canonical-spelling', 'case-variant-matches']),
          grp('case/exceptions', 'VH_case', ej, cost=5, bound='every exception id after MIT WITH, all case masks',
              symbolic='one boolean per letter', asserts=['case-variant-valid', 'extract-canonical', 'case-variant-matches']),
          grp('case/deprecated-list', 'VH_case', dj, cost=5, bound='every entry of the deprecated list (including the X+ entries), all case masks',
              symbolic='one boolean per letter', asserts=['case-variant-valid', 'extract-canonical', 'case-variant-matches'])]
    if tier == 'thorough':
        gs.append(grp('case/with-suffix', 'VH_case', vj, cost=5, bound='every id followed by + / WITH exception, all case masks',
                      symbolic='one boolean per letter', asserts=['case-variant-valid', 'extract-canonical', 'case-variant-matches']))
    else:
        gs.append(grp('case/with-suffix', 'VH_case', vj, cost=5, bound='every id followed by + / WITH exception, all case masks',
                      symbolic='one boolean per letter', asserts=['case-variant-valid', 'extract-canonical', 'case-variant-matches']))
    lists = ['active', 'deprecated', 'exception']
    gs.append(grp('fold-unique', 'VH_foldUnique', [[a, b] for i, a in enumerate(lists) for b in lists[i:]], cost=1,
                  bound='all pairs of entries of the three lists', symbolic='two list indices', asserts=[]))
    return gs


def c11(tier, seed):
    return [grp('reach', 'VH_reach', [['0'], ['1']], merge=M, whole_table=True, cost=30, bound='X+ against Y / Y+, X and Y over all listed ids',
                symbolic='ids X, Y', asserts=['plus-stays-in-family', 'plus-reaches-iff-later', 'valid-terms-accepted']),
            grp('table-well-formed', 'VH_tableWellFormed', [[]], cost=2, bound='all pairs of positions of the shipped family table',
                symbolic='two table positions', asserts=['entry-listed', 'entry-at-one-position', 'family-one-key', 'group-one-version', 'groups-ascending']),
            grp('table-lookup', 'VH_tableLookup', [[]], merge=M, whole_table=True, cost=30, bound='all pairs of table positions through Satisfies',
                symbolic='two table positions', asserts=['entry-at-own-position', 'valid-terms-accepted'])]


def json_lists():
    import json, os
    from core import REPO
    lic = json.load(open(os.path.join(REPO, 'cmd', 'licenses.json')))['licenses']
    exc = json.load(open(os.path.join(REPO, 'cmd', 'exceptions.json')))['exceptions']
    return dict(active=[l['licenseId'] for l in lic if not l.get('isDeprecatedLicenseId')],
                deprecated=[l['licenseId'] for l in lic if l.get('isDeprecatedLicenseId')],
                exception=[e['licenseExceptionId'] for e in exc if not e.get('isDeprecatedLicenseId')])


def gen_template(fname, ids):
    """(prefix, linePre, linePost, suffix) of a committed generated file, or None when the file is
    not prefix ++ one line per id ++ suffix for the ids the JSON data yields"""
    import os
    from core import REPO
    src = open(os.path.join(REPO, 'spdxexp', 'spdxlicenses', fname)).read()
    if not ids:
        return None
    pos = src.find('"' + ids[0] + '"')
    if pos < 0:
        return None
    ls = src.rfind('\n', 0, pos) + 1
    le = src.find('\n', pos) + 1
    pre, post = src[ls:pos + 1], src[pos + 1 + len(ids[0]):le]
    body = ''.join(pre + i + post for i in ids)
    if src[ls:ls + len(body)] != body:
        return None
    return [src[:ls], pre, post, src[ls + len(body):]]


def c12(tier, seed):
    lists = ['active', 'deprecated', 'exception']
    jl = json_lists()
    kmax = 3 if tier == 'quick' else 4
    ta, td, te = gen_template('get_licenses.go', jl['active']), gen_template('get_deprecated.go', jl['deprecated']), gen_template('get_exceptions.go', jl['exception'])
    gj = []
    if ta and td:
        gj += [['licenses', k] + ta + td for k in range(0, kmax + 1)]
    if te:
        gj += [['exceptions', k] + te for k in range(0, kmax + 1)]
    return [grp('json-vs-tables', 'VH_jsonAgree', [[w] + jl[w] for w in lists], cost=2,
                bound='every position of each of the three shipped lists against the list derived from cmd/licenses.json / cmd/exceptions.json',
                symbolic='list position (the comparison itself is of concrete data; the solver adds little over a diff here)', asserts=['tables-equal-json']),
            grp('generator', 'VH_generator', gj, pkg='cmd', cost=5,
                bound='the real generator functions on stub documents of <= %d entries; JSON decoding by the struct tags of cmd\'s types; the template (prefix, entry line, suffix) of each file is taken from the committed generated file, which must decompose as prefix + one line per JSON id + suffix' % kmax,
                symbolic='ids (1-3 symbolic id characters), isDeprecatedLicenseId and isOsiApproved flags',
                asserts=['generator-runs', 'generator-files', 'generator-partition-and-format']),
            grp('fold-unique-disjoint', 'VH_foldUnique', [[a, b] for i, a in enumerate(lists) for b in lists[i:]], cost=1,
                bound='all pairs of entries of the three lists', symbolic='two list indices', asserts=[]),
            grp('listed', 'VH_listed', [[l] for l in lists], merge=M, cost=10, bound='every entry of each list', symbolic='list index',
                asserts=['id-accepted', 'id-reported-as-listed', 'exception-after-with', 'exception-after-with-only'])]


# ---------------------------------------------------------------- trees

def trees(n, first=0):
    """all Polish encodings of binary trees with n leaves numbered first.. left to right"""
    if n == 1:
        return [str(first)]
    out = []
    for k in range(1, n):
        for l in trees(k, first):
            for r in trees(n - k, first + k):
                out += ['&' + l + r, '|' + l + r]
    return out


MS = ['parse', 'getLicenseRange', 'inLicenseList', 'isCompatible']
SAT_FUNCS = MATCH_FUNCS + ['expandOr', 'expandAnd', 'expandOrTerm', 'expandAndTerm', 'appendTerms', 'mergeTerms', 'deepSort', 'sortLicenses',
                           'parseExpression', 'parseAnd', 'parseAtom', 'parseParenthesizedExpression', 'parseLicenseRef', 'parseTokens']
KINDS_ALL = 'LPWODRlQUr'


def kind_profiles(n, seed, rich):
    """kind strings for n leaves: all-license, all-ref, one special kind at each position, mixed"""
    out = ['L' * n]
    if n == 1:
        return list(KINDS_ALL)
    if n == 2:
        return [a + b for a in KINDS_ALL for b in KINDS_ALL] if rich else [a + b for a in 'LWRD' for b in 'LPRO'] + ['Rr', 'lU', 'QW']
    out.append('R' * n)
    for i in range(n):
        for k in ('R', 'W', 'Q') if not rich else 'PWODRlQUr':
            out.append('L' * i + k + 'L' * (n - i - 1))
    out.append(''.join('LR'[i % 2] for i in range(n)))
    out.append(''.join('RL'[i % 2] for i in range(n)))
    out.append(''.join('LPWD'[(i + seed) % 4] for i in range(n)))
    out.append(''.join('RrQO'[(i + seed) % 4] for i in range(n)))
    out.append(('Rr' + 'L' * n)[:n])
    out.append(('RrR' + 'r' * n)[:n])
    if rich:
        out.append(''.join('DRLO'[(i + seed) % 4] for i in range(n)))
        out.append(''.join('WWPl'[(i + seed) % 4] for i in range(n)))
    seen, res = set(), []
    for k in out:
        if k not in seen:
            seen.add(k)
            res.append(k)
    return res


def ident_profiles(n, rich):
    asc = ''.join(str(i) for i in range(n))
    out = [asc, asc[::-1]]
    if n >= 2:
        out.append(''.join(str(i % 2) for i in range(n)))     # repetition 0101
    if n >= 3:
        out.append(''.join(str(i // 2) for i in range(n)))    # 0011
    if n >= 3:
        out.append('0' * n)
    return out


def sat_jobs(tier, seed, for_extract=False):
    """(group name, jobs) for the L-SAT family"""
    groups = []
    thorough = tier == 'thorough'
    def add(name, n, kinds, idents, modes, m, big, subset, cost):
        jobs = []
        for enc in trees(n):
            for k in kinds:
                for idn in idents:
                    for mode in modes:
                        if for_extract:
                            jobs.append([enc, k, idn, mode])
                        else:
                            jobs.append([enc, k, idn, mode, m, big, subset])
        groups.append((name, jobs, n, m, cost))
    add('n1', 1, kind_profiles(1, seed, True), ['0'], 'F', 2, 1, 0, 1)
    add('n2', 2, kind_profiles(2, seed, thorough), ['01', '10', '00'], 'FM', 2, 1, 0, 1)
    if thorough:
        add('n3', 3, kind_profiles(3, seed, True), ident_profiles(3, True), 'FM', 3, 0, 1, 3)
        add('n3-all-orders', 3, ['LLL', 'LRL', 'RWL', 'PQO', 'DrR', 'UlW'], ['012', '010'], 'M', 3, 0, 0, 3)
        add('n3-big-universe', 3, ['LLL', 'LPW', 'RLD', 'OlP', 'QWL', 'RrL', 'UlO', 'WQP', 'PPQ', 'DRr', 'OQW', 'lLU'], ['012', '011', '001'], 'M', 3, 1, 1, 4)
        add('n4', 4, kind_profiles(4, seed, True), ident_profiles(4, True), 'F', 3, 0, 1, 3)
        add('n4-all-orders', 4, ['LLLL', 'LRLR'], ['0123'], 'M', 3, 0, 0, 8)
        add('n5', 5, kind_profiles(5, seed, False)[:8], ['01234', '43210'], 'F', 4, 0, 1, 5)
        add('n5-m5', 5, ['LLLLL', 'LRLRL'], ['01234'], 'M', 5, 0, 1, 6)
        t6 = trees(6)
        groups.append(('n6-third', [[e, 'LLLLLL', '012345', 'F', 5, 0, 1] if not for_extract else [e, 'LLLLLL', '012345', 'F'] for e in t6[seed % 3::3]], 6, 5, 30))
    else:
        add('n3', 3, kind_profiles(3, seed, False), ident_profiles(3, False), 'FM', 3, 0, 1, 3)
        add('n3-all-orders', 3, ['LLL', 'LRL', 'RWL'], ['012', '010'], 'M', 3, 0, 0, 3)
        add('n3-big-universe', 3, ['LLL', 'LPW', 'RLD', 'OlP', 'QWL', 'RrL', 'UlO', 'WQP'], ['012', '011', '001'], 'M', 2, 1, 0, 3)
        add('n4', 4, ['LLLL', 'RRRR', 'LRLR', 'RLLL', 'LLLR', 'LWPD', 'QOrR'], ['0123', '3210', '0101'], 'F', 3, 0, 1, 3)
        add('n5', 5, ['LLLLL'], ['01234', '01201'], 'F', 4, 0, 1, 5)
    # wide expansions: many alternatives from few leaves
    wide = ['|0|1|2|3|4|5|6|78', '&|0|12|3|45', '&|0|12|3|4|56', '|&01|&23|&45|&67|89', '&&|01|23|4|56', '||||||||012345678', '&|01&|23&|45|67']
    wj = []
    for enc in wide:
        n = sum(ch.isdigit() for ch in enc)
        idn = ''.join(str(i) for i in range(n))
        for kinds in (['L' * n] if not thorough else ['L' * n, ('LR' * 5)[:n], ('LPW' * 4)[:n]]):
            wj.append([enc, kinds, idn, 'M', 2, 0, 1] if not for_extract else [enc, kinds, idn, 'M'])
            wj.append([enc, kinds, idn[::-1], 'F', 3, 0, 1] if not for_extract else [enc, kinds, idn[::-1], 'F'])
    groups.append(('wide', wj, 9, 3, 6))
    return groups


def c01(tier, seed):
    gs = []
    for name, jobs, n, m, cost in sat_jobs(tier, seed):
        gs.append(grp('L-SAT/' + name, 'VH_sat', jobs, merge=MS, cost=cost,
                      bound='%d trees x kinds x identities with %d leaves; allowed list of %d entries over the universe of the leaves, their re-spellings and family neighbours' % (len(jobs), n, m),
                      symbolic='%d allowed entries (choice variables over the universe)' % m,
                      asserts=['no-error-on-valid', 'satisfies-iff-boolean-eval']))
    return gs


def c06(tier, seed):
    gs = []
    for name, jobs, n, m, cost in sat_jobs(tier, seed, for_extract=True):
        if name in ('n3-big-universe', 'n4-all-orders', 'n5-m5', 'n3-all-orders'):
            continue
        gs.append(grp('extract/' + name, 'VH_extract', jobs, cost=1, bound='%d trees x kinds x identities with %d leaves' % (len(jobs), n),
                      symbolic='none beyond path feasibility: the quantifier is over tree shapes, enumerated as jobs/paths',
                      asserts=['no-error-on-valid', 'no-term-missing', 'no-term-invented', 'returned-is-valid', 'returned-is-fixpoint', 'self-satisfying'] + (['no-duplicates'] if n > 1 else [])))
    return gs


def c07(tier, seed):
    gs = []
    thorough = tier == 'thorough'
    for n, kinds, m, big in ((1, ['L', 'P', 'W', 'R', 'O'], 3, 1), (2, ['LL', 'LR', 'PW', 'OD', 'DD', 'Rr'], 3, 1), (3, ['LLL', 'LRW', 'PLO', 'DDL'], 2 if not thorough else 3, 1),
                             (4, ['LLLL', 'LRLR'] if thorough else ['LLLL'], 2, 0)):
        ts = trees(n)
        if n == 4 and not thorough:
            ts = ts[seed % 4::4]
        for aspect in ('perm', 'dup', 'respell', 'mono'):
            mm = m
            if aspect == 'mono' or (n >= 3 and not thorough):
                mm = 2
            jobs = [[enc, k, ''.join(str(i) for i in range(n)) if n < 3 else idn, 'M', mm, big, aspect] for enc in ts for k in kinds
                    for idn in ([''.join(str(i) for i in range(n))] + (['010', '0110'][n - 3:n - 2] if n >= 3 else []))]
            gs.append(grp('set/n%d/%s' % (n, aspect), 'VH_set', jobs, merge=MS, cost=4 * n,
                          bound='%d expressions with %d leaves; allowed list of %d entries (+1 extension) over the big universe' % (len(jobs), n, mm),
                          symbolic='allowed entries and the extension entry (choice variables)', asserts=['no-error-on-valid']))
    return gs


def rewrites(n_max, seed):
    """(lhs, rhs, nleaves, same_terms) pairs: single Boolean-algebra steps on small trees, placed in a context"""
    out = []
    A, B, C = '0', '1', '2'
    for op, dual in (('&', '|'), ('|', '&')):
        out.append((op + A + B, op + B + A, 2, True, 'commutativity'))
        out.append((op + op + A + B + C, op + A + op + B + C, 3, True, 'associativity'))
        out.append((op + A + A, A, 1, True, 'idempotence'))
        out.append((op + A + dual + A + B, A, 2, False, 'absorption'))
        out.append((op + A + dual + B + C, dual + op + A + B + op + A + C, 3, True, 'distribution'))
        out.append((op + dual + B + C + A, dual + op + B + A + op + C + A, 3, True, 'distribution-right'))
    res = []
    for l, r, n, same, rule in out:
        res.append((l, r, n, same, rule))
        if n + 1 <= n_max:
            x = str(n)
            for cop in '&|':
                res.append((cop + l + x, cop + r + x, n + 1, same, rule + ' under ' + cop))
                res.append((cop + x + l, cop + x + r, n + 1, same, rule + ' under ' + cop))
        if n + 2 <= n_max:
            x, y = str(n), str(n + 1)
            for c1 in '&|':
                for c2 in '&|':
                    res.append((c1 + x + c2 + l + y, c1 + x + c2 + r + y, n + 2, same, rule + ' nested'))
    return res


def reassociate(enc):
    """the same expression with every chain of equal operators re-nested to the right"""
    pos = [0]
    def parse():
        c = enc[pos[0]]; pos[0] += 1
        if c in '&|':
            l = parse(); r = parse()
            return (c, l, r)
        return c
    def flat(t, op):
        if isinstance(t, tuple) and t[0] == op:
            return flat(t[1], op) + flat(t[2], op)
        return [t]
    def build(t):
        if not isinstance(t, tuple):
            return t
        items = [build(x) for x in flat(t, t[0])]
        out = items[-1]
        for x in reversed(items[:-1]):
            out = t[0] + x + out
        return out
    return build(parse())


def c10(tier, seed):
    thorough = tier == 'thorough'
    gs = []
    hj = []
    for ne in (1, 2, 3):
        for nf in (1, 2, 3):
            if ne + nf > (4 if not thorough else 5):
                continue
            for e in trees(ne):
                for f in trees(nf, ne):
                    n = ne + nf
                    asc = ''.join(str(i) for i in range(n))
                    for k in (['L' * n, ('LR' * 3)[:n]] if n <= 3 or thorough else ['L' * n]):
                        hj.append([e, f, k, asc, 'M', 2 if n <= 3 else 3, 0])
                    if n <= 3:
                        # the same id with and without '+' / exception on the two sides
                        for k in (('LW' + 'L' * n)[:n], ('WL' + 'P' * n)[:n], ('PQ' + 'W' * n)[:n], ('OL' + 'W' * n)[:n]):
                            hj.append([e, f, k, '0' * n, 'M', 2, 1])
                            if n == 3:
                                hj.append([e, f, k, '010', 'M', 2, 1])
    gs.append(grp('homomorphism', 'VH_hom', hj, merge=MS, cost=5, bound='sub-expressions E, F with |E|+|F| <= %d leaves' % (4 if not thorough else 5),
                  symbolic='allowed entries (choice variables)', asserts=['no-error-on-valid', 'and-homomorphic', 'or-homomorphic']))
    rj = []
    for l, r, n, same, rule in rewrites(3 if not thorough else 4, seed):
        for k in (['L' * n, ('RL' * 3)[:n]] if n <= 3 else ['L' * n]):
            idn = ''.join(str(i) for i in range(n))
            rj.append([l, r, k, idn, 'F', 'F', min(3, max(2, n)), 0, 1 if same else 0])
    for l, r, n, same, rule in rewrites(3, seed):
        if n <= 3:
            for k in (('LW' + 'L' * n)[:n], ('PQ' + 'W' * n)[:n]):
                rj.append([l, r, k, ('0' * n) if n < 3 else '001', 'F', 'F', 2, 1, 1 if same else 0])
    # regrouping of whole trees: every 5-leaf tree against its right-nested re-association
    for e in trees(5) if thorough else trees(5)[seed % 2::2]:
        rr = reassociate(e)
        if rr != e:
            rj.append([e, rr, 'LLLLL', '01234', 'F', 'F', 4, 0, 1, 1])
    # parentheses and spacing only
    for n in (2, 3):
        for e in trees(n):
            idn = ''.join(str(i) for i in range(n))
            rj.append([e, e, 'L' * n, idn, 'F', 'M', 2, 0, 1])
            rj.append([e, e, ('LR' * 2)[:n], idn, 'M', 'S', 2, 0, 1])
            rj.append([e, e, 'L' * n, idn, 'F', 'T', 2, 0, 1])
            rj.append([e, e, ('RL' * 2)[:n], idn, 'M', 'T', 2, 0, 1])
    gs.append(grp('rewrites', 'VH_rewrite', rj, merge=MS, cost=5, bound='single rewrite steps (commutativity, associativity, idempotence, absorption, distribution, parentheses, spacing) on trees of <= %d leaves incl. context' % (5 if thorough else 4),
                  symbolic='allowed entries (choice variables)', asserts=['no-error-on-valid', 'rewrite-preserves-verdict', 'rewrite-preserves-terms']))
    return gs


def repo_test_inputs():
    """(expression, allowed list) pairs taken from the repository's own test files"""
    import re, os
    from core import REPO
    out, seen = [], set()
    def add(e, al):
        k = (e, tuple(al))
        if k not in seen and len(e) < 300 and len(al) < 12:
            seen.add(k)
            out.append([e] + list(al))
    lit = r'"((?:[^"\\]|\\.)*)"'
    try:
        src = open(os.path.join(REPO, 'spdxexp', 'satisfies_test.go')).read()
        for m in re.finditer(r'\{' + lit + r',\s*' + lit + r',\s*\[\]string\{([^}]*)\}', src):
            al = re.findall(lit, m.group(3))
            add(bytes(m.group(2), 'utf-8').decode('unicode_escape'), [bytes(x, 'utf-8').decode('unicode_escape') for x in al])
        for f in ('parse_test.go', 'scan_test.go', 'extracts_test.go', 'node_test.go', 'compare_test.go', 'license_test.go'):
            src = open(os.path.join(REPO, 'spdxexp', f)).read()
            for m in re.finditer(r'\{' + lit + r',\s*' + lit, src):
                add(bytes(m.group(2), 'utf-8').decode('unicode_escape'), ['MIT', 'Apache-2.0'])
    except Exception as e:
        pass
    return out


def selftest(tier, seed):
    rows = repo_test_inputs()
    extra = [['(MIT OR LicenseRef-x) AND (GPL-2.0+ OR Apache-2.0 WITH LLVM-exception)', 'LicenseRef-x', 'gpl-3.0-only'],
             ['((MIT AND ISC) AND Apache-2.0) AND (GPL-2.0 OR BSD-3-Clause)', 'MIT', 'ISC', 'Apache-2.0', 'GPL-2.0'],
             ['MIT OR (ISC AND (Apache-2.0 OR GPL-2.0))', 'ISC', 'GPL-2.0'], ['(', 'MIT'], ['Apache-2.0-or-later AND FOO', 'MIT'],
             ['(Apache-2.0-or-later)', 'Apache-2.0'], ['DocumentRef-a:LicenseRef-b OR MIT+ WITH Bison-exception-2.2', 'DocumentRef-a:LicenseRef-b'],
             ['\xff\xfe', 'MIT'], ['  mit   AND(isc)', 'ISC', ' MIT ']]
    return [grp('repo-test-inputs', 'VH_selftest', rows + extra, cost=1, compare_notes=True, internal=True,
                bound='%d (expression, allowed list) inputs taken from the repository\'s own *_test.go files plus %d extra' % (len(rows), len(extra)),
                symbolic='none (concrete runs: translator validation)', asserts=['ran']),
            grp('append-capacities', 'VH_selftestCaps', [[]], cost=1, compare_notes=True, internal=True, bound='append growth of 6 slice types up to 70 elements and 64 multi-element appends',
                symbolic='none', asserts=['ran'])]


PROPS = {
    'selftest': dict(groups=selftest, functions=['everything reachable from the exported API, run concretely'], witness_replays=100000, partition=False,
                     outside='translator validation only: concrete inputs, engine interpretation compared with the native build observable by observable'),
    'C01': dict(groups=c01, functions=SAT_FUNCS, outside='trees with more leaves than the bound; allowed lists with more entries than m (for license-only trees m >= number of leaves needed by one alternative); leaf ids outside the pools (connected through C02/C08/C09, which quantify over all ids)'),
    'C06': dict(groups=c06, full_bounds_in_quick=True, functions=SAT_FUNCS + ['ExtractLicenses', 'flatten', 'removeDuplicateStrings'], outside='trees with more leaves than the bound'),
    'C07': dict(groups=c07, functions=SAT_FUNCS, outside='lists of more than 3 entries (+1); re-spellings other than case / spaces / parentheses'),
    'C10': dict(groups=c10, functions=SAT_FUNCS + ['ExtractLicenses'], outside='rewrite instances with more leaves than the bound; sequences of rewrites follow by transitivity, rewrites at depth by the homomorphism clause'),
    'C02': dict(groups=c02, full_bounds_in_quick=True, functions=MATCH_FUNCS, outside='exception ids other than the two chosen by the seed (all exceptions are covered for a 12-id universe in thorough); ids that sit at more than one table position (reported by C11)'),
    'C08': dict(groups=c08, full_bounds_in_quick=True, functions=MATCH_FUNCS, outside='contexts other than the listed ones (by C01 the verdict depends on the match atoms only)'),
    'C09': dict(groups=c09, full_bounds_in_quick=True, functions=MATCH_FUNCS + ['ExtractLicenses'], outside='operators, reference prefixes, the -only/-or-later suffixes, user reference names (excluded by the statement)'),
    'C11': dict(groups=c11, full_bounds_in_quick=True, functions=MATCH_FUNCS, outside='ids whose text does not follow base-version[-qualifier]; families the table does not cover at all'),
    'C12': dict(groups=c12, full_bounds_in_quick=True, functions=MATCH_FUNCS + ['cmd.extractLicenseIDs', 'cmd.extractExceptionLicenseIDs'],
                stubs=['os.Open / json.NewDecoder / Decode: structured stub document, Go fields selected by json tag as encoding/json does', 'os.WriteFile: captured', 'fmt.Println: output effect'],
                outside='encoding/json itself, file I/O and main()\'s flag handling (stubs); generator runs on more than 3-4 entries (the loops are uniform: argument); JSON-table agreement is a comparison of concrete data'),
    'C03': dict(groups=c03, panics_violate=True, assert_violations=False, functions=PARSE_FUNCS + LEX_FUNCS + ['Satisfies', 'ExtractLicenses', 'ValidateLicenses', 'expand*', 'appendTerms', 'mergeTerms'],
                outside='token sequences, id runs, byte strings and trees beyond the bounds except through the one-step lexer induction; stack or memory exhaustion on very long or deeply nested text'),
    'C04': dict(groups=c04, functions=PARSE_FUNCS + LEX_FUNCS + ['Satisfies', 'ExtractLicenses', 'ValidateLicenses', 'stringsToNodes'],
                outside='strings longer than 4-5 arbitrary bytes or 3-4 tokens; lists longer than 3-4; paths on which the library panics are excluded here and reported by C03'),
    'C05': dict(groups=c05, functions=PARSE_FUNCS + LEX_FUNCS,
                outside='token sequences longer than the bound; id runs longer than the bound; abstention zones of the lexer oracle (suffix on a deprecated-only or exception id, case variants of the suffix, keyword glued to an id character)'),
    'C13': dict(groups=c13, race=True, functions=SAT_FUNCS + ['ExtractLicenses', 'ValidateLicenses'],
                outside='enumeration of schedules (replaced by frame + non-interference, confirmed by an 8-goroutine run under the race detector on every replayed witness); inputs beyond the bounds'),
    'C15': dict(groups=c15, functions=LEX_FUNCS + ['ExtractLicenses', 'fmt.Sprintf model'],
                outside='prefixes other than the 12 templates; culprits longer than the bound'),
}
