//go:build verif

package spdxexp

// Whole-table harnesses through the public API: C08 (equivalent spellings), C09 (letter
// case), C11 ('+' and the family table), C12 (list hygiene). Ids are choice variables over
// the shipped lists, read from /repo on every run.

import (
	"strings"

	"github.com/github/go-spdx/v2/spdxexp/spdxlicenses"
)

func vValid(s string) bool {
	ok, _ := ValidateLicenses([]string{s})
	return ok
}

func vList(which string) []string {
	switch which {
	case "active":
		return spdxlicenses.GetLicenses()
	case "deprecated":
		return spdxlicenses.GetDeprecated()
	case "exception":
		return spdxlicenses.GetExceptions()
	}
	return vTableIDs()
}

// ---------------------------------------------------------------- C08

func vWrap(ctx, s string) string {
	switch ctx {
	case "paren":
		return "(" + s + ")"
	case "and":
		return s + " AND MIT"
	case "andparen":
		return "(MIT AND " + s + ")"
	case "or":
		return "MIT OR " + s
	// an earlier / later term that already carries the suffix text: a rewrite that is
	// located by searching the whole expression instead of the scan position shows here
	case "aftersuffix":
		return "GPL-2.0-or-later OR " + s
	case "afteronly":
		return "LGPL-2.1-only AND " + s
	case "afterref":
		return "LicenseRef-a-or-later-only OR " + s
	case "beforesuffix":
		return s + " OR GPL-3.0-or-later AND LGPL-2.1-only"
	}
	return s
}

// VH_spell [pair ctx role py excX excY]: the two spellings of pair ("plus": X+ / X-or-later,
// "only": X / X-only) are interchangeable as the expression term or as the allowed entry,
// against every term Y[+][ WITH e], whenever both spellings are valid.
func VH_spell(a []string) {
	pair, ctx, role, py, excX, excY := a[0], a[1], a[2], a[3], a[4], a[5]
	ids := vTableIDs()
	x := ids[vPickInt(0, len(ids)-1, "x")]
	s1, s2 := x+"+", x+"-or-later"
	if pair == "only" {
		s1, s2 = x, x+"-only"
	}
	v1, v2 := vValid(s1), vValid(s2)
	vAssume(v1)
	vAssume(v2)
	if excX != "-" {
		s1 += " WITH " + excX
		s2 += " WITH " + excX
	}
	w1, w2 := vWrap(ctx, s1), vWrap(ctx, s2)
	vNote("text", vShow(w1)+" vs "+vShow(w2))
	vAssert(vIff(vValid(w1), vValid(w2)), "same-validity")
	if role == "valid" {
		return
	}
	y := ids[vPickInt(0, len(ids)-1, "y")]
	if py == "1" {
		y += "+"
	}
	if excY != "-" {
		y += " WITH " + excY
	}
	allowed1, allowed2 := []string{y, "MIT"}, []string{y, "MIT"}
	e1, e2 := w1, w2
	if role == "allowed" {
		// the spellings are the allowed entries, y is the expression
		e1, e2 = y, y
		allowed1, allowed2 = []string{s1}, []string{s2}
	}
	r1, err1 := Satisfies(e1, allowed1)
	r2, err2 := Satisfies(e2, allowed2)
	vNote("text", "Satisfies("+vShow(e1)+", "+vShowList(allowed1)+") vs Satisfies("+vShow(e2)+", "+vShowList(allowed2)+")")
	vAssert(vIff(err1 == nil, err2 == nil), "same-validity")
	vAssert(vIff(r1, r2), "spellings-interchangeable")
}

// VH_spellCtx [pair op exc py]: the two spellings inside a compound expression
// "S op X WITH e" against the two-entry allowed list [Y, Y WITH e]; X and Y range over every
// listed id (an AND group / OR alternatives with two members of one family, one of them
// carrying an exception, matched by two different allowed entries).
func VH_spellCtx(a []string) {
	pair, op, exc, py := a[0], a[1], a[2], a[3]
	ids := vTableIDs()
	x := ids[vPickInt(0, len(ids)-1, "x")]
	s1, s2 := x+"+", x+"-or-later"
	if pair == "only" {
		s1, s2 = x, x+"-only"
	}
	vAssume(vValid(s1))
	vAssume(vValid(s2))
	t := x + " WITH " + exc
	y := ids[vPickInt(0, len(ids)-1, "y")]
	if py == "1" {
		y += "+"
	}
	e1, e2 := s1+" "+op+" "+t, s2+" "+op+" "+t
	allowed := []string{y, y + " WITH " + exc}
	vNote("text", "Satisfies("+vShow(e1)+" vs "+vShow(e2)+", "+vShowList(allowed)+")")
	r1, err1 := Satisfies(e1, allowed)
	r2, err2 := Satisfies(e2, allowed)
	vAssert(vIff(err1 == nil, err2 == nil), "same-validity")
	vAssert(vIff(r1, r2), "spellings-interchangeable")
	// and with the roles of the two entries exchanged in the list
	r3, err3 := Satisfies(e1, []string{allowed[1], allowed[0]})
	vAssert(vAnd(err3 == nil, vIff(r1, r3)), "spellings-interchangeable")
}

// VH_bothValid [pair]: for every ACTIVE id both spellings of the pair are valid.
func VH_bothValid(a []string) {
	act := spdxlicenses.GetLicenses()
	x := act[vPickInt(0, len(act)-1, "x")]
	s1, s2 := x+"+", x+"-or-later"
	if a[0] == "only" {
		s1, s2 = x, x+"-only"
	}
	vNote("text", vShow(s1)+" / "+vShow(s2))
	vAssert(vValid(s1), "both-spellings-valid")
	vAssert(vValid(s2), "both-spellings-valid")
}

// ---------------------------------------------------------------- C09

// VH_case [list lo hi variant]: every case variant of the k-th id (lo <= k <= hi) is valid,
// extracts to the list's own spelling and matches that spelling in both directions.
func VH_case(a []string) {
	list := vList(a[0])
	lo, hi := vAtoi(a[1]), vAtoi(a[2])
	if hi >= len(list) {
		hi = len(list) - 1
	}
	vAssume(lo <= hi)
	k := vConcretize(vPickInt(lo, hi, "k"))
	id := list[k]
	if a[0] == "exception" {
		text := "MIT WITH " + vCaseMask(id, "mask")
		vNote("text", vShow(text))
		vAssert(vValid(text), "case-variant-valid")
		l, err := ExtractLicenses(text)
		vAssert(err == nil && len(l) == 1, "case-variant-valid")
		if err == nil && len(l) == 1 {
			vAssert(vStrEq(l[0], "MIT WITH "+id), "extract-canonical")
		}
		r, err2 := Satisfies(text, []string{"MIT WITH " + id})
		vAssert(vAnd(err2 == nil, r), "case-variant-matches")
		return
	}
	suffix := ""
	switch a[3] {
	case "plus":
		suffix = "+"
	case "with":
		suffix = " WITH Bison-exception-2.2"
	}
	text := vCaseMask(id, "mask") + suffix
	canon := id + suffix
	vNote("text", vShow(text))
	vAssert(vValid(text), "case-variant-valid")
	want, werr := ExtractLicenses(canon)
	l, err := ExtractLicenses(text)
	vAssert(werr == nil && err == nil && len(l) == 1 && len(want) == 1, "case-variant-valid")
	if werr == nil && err == nil && len(l) == 1 && len(want) == 1 {
		vAssert(vStrEq(l[0], want[0]), "extract-canonical")
		if !strings.HasSuffix(id, "+") {
			// the id part is byte-identical to the list entry, and nothing but '+' / WITH follows it
			vAssert(strings.HasPrefix(l[0], id), "canonical-spelling")
			// ("X+" with X-or-later listed is reported as "X-or-later+": documented normalisation)
			rest := l[0][len(id):]
			if i := strings.Index(rest, " WITH "); i >= 0 {
				rest = rest[:i]
			}
			vAssert(rest == "" || rest == "+" || rest == "-or-later+", "canonical-spelling")
		}
	}
	r, err2 := Satisfies(text, []string{canon})
	vAssert(vAnd(err2 == nil, r), "case-variant-matches")
	r3, err3 := Satisfies(canon, []string{text})
	vAssert(vAnd(err3 == nil, r3), "case-variant-matches")
}

// VH_foldUnique [listA listB]: no two entries equal up to letter case (within a list: at
// different positions; across lists: at all).
func VH_foldUnique(a []string) {
	la, lb := vList(a[0]), vList(a[1])
	i := vPickInt(0, len(la)-1, "i")
	j := vPickInt(0, len(lb)-1, "j")
	eq := strings.EqualFold(la[i], lb[j])
	vNote("text", vShow(la[i])+" ~ "+vShow(lb[j]))
	if a[0] == a[1] {
		vAssert(vImplies(eq, i == j), "fold-unique")
	} else {
		vAssert(vNot(eq), "disjoint")
	}
}

// ---------------------------------------------------------------- C12 (list hygiene)

// VH_listed [list]: every listed license id is a valid one-term expression that extracts
// to exactly one term; every exception id is accepted after WITH and nowhere else.
func VH_listed(a []string) {
	list := vList(a[0])
	x := list[vPickInt(0, len(list)-1, "x")]
	vNote("text", vShow(x))
	if a[0] != "exception" {
		vAssert(vValid(x), "id-accepted")
		l, err := ExtractLicenses(x)
		vAssert(err == nil && len(l) == 1, "id-accepted")
		if err == nil && len(l) == 1 && a[0] == "active" {
			// the term is reported under the id's own list spelling ('+' appended for the
			// listed -or-later forms, which denote "or later")
			vAssert(vOr(vStrEq(l[0], x), vAnd(strings.HasSuffix(x, "-or-later"), vStrEq(l[0], x+"+"))), "id-reported-as-listed")
		}
		r, err2 := Satisfies(x, []string{x})
		vAssert(vAnd(err2 == nil, r), "id-accepted")
		return
	}
	vAssert(vValid("MIT WITH "+x), "exception-after-with")
	vAssert(vNot(vValid(x)), "exception-after-with-only")
	vAssert(vNot(vValid(x+" AND MIT")), "exception-after-with-only")
	vAssert(vNot(vValid("MIT AND "+x)), "exception-after-with-only")
	vAssert(vNot(vValid("("+x+")")), "exception-after-with-only")
	vAssert(vNot(vValid("MIT "+x)), "exception-after-with-only")
	vAssert(vNot(vValid(x+"+")), "exception-after-with-only")
	vAssert(vNot(vValid("LicenseRef-a WITH "+x)), "exception-after-with-only")
	_, err := Satisfies("MIT", []string{x})
	vAssert(err != nil, "exception-after-with-only")
}

// ---------------------------------------------------------------- C11

func vIsDigit(c byte) bool { return c >= '0' && c <= '9' }

// natural family key and version of an id, from its text (DESIGN.md appendix B.4)
func vFamver(id string) (key string, ver []int, ok bool) {
	s := id
	if strings.HasSuffix(s, "-only") {
		s = s[:len(s)-5]
	} else if strings.HasSuffix(s, "-or-later") {
		s = s[:len(s)-9]
	} else if strings.HasSuffix(s, "+") {
		s = s[:len(s)-1]
	}
	for i := 0; i+1 < len(s); i++ {
		if s[i] != '-' || !vIsDigit(s[i+1]) {
			continue
		}
		j := i + 1
		var v []int
		good := true
		for {
			n := 0
			st := j
			for j < len(s) && vIsDigit(s[j]) {
				n = n*10 + int(s[j]-'0')
				j++
			}
			if j == st {
				good = false
				break
			}
			v = append(v, n)
			if j+1 < len(s) && s[j] == '.' && vIsDigit(s[j+1]) {
				j++
				continue
			}
			break
		}
		if !good {
			continue
		}
		if j < len(s) && s[j] >= 'a' && s[j] <= 'z' && (j+1 == len(s) || s[j+1] == '-') {
			v = append(v, int(s[j]))
			j++
		}
		if j == len(s) {
			return s[:i] + "|", v, true
		}
		if s[j] == '-' {
			return s[:i] + "|" + s[j+1:], v, true
		}
	}
	return "", nil, false
}

func vCmpVer(a, b []int) int {
	for i := 0; i < len(a) && i < len(b); i++ {
		if a[i] != b[i] {
			if a[i] < b[i] {
				return -1
			}
			return 1
		}
	}
	if len(a) != len(b) {
		if len(a) < len(b) {
			return -1
		}
		return 1
	}
	return 0
}

type vFV struct {
	keys    []string // family key per id ("" = no version)
	rank    []int    // rank of the version among all versions (equal versions, equal rank)
	covered []bool   // some id with this family key sits in the shipped table
	orLater []bool   // id ends in -or-later
}

func vTableFamver() vFV {
	ids := vTableIDs()
	n := len(ids)
	out := vFV{keys: make([]string, n), rank: make([]int, n), covered: make([]bool, n), orLater: make([]bool, n)}
	vers := make([][]int, n)
	for i, id := range ids {
		k, v, ok := vFamver(id)
		if ok {
			out.keys[i], vers[i] = k, v
		}
		out.orLater[i] = strings.HasSuffix(id, "-or-later")
	}
	for i := range ids {
		r := 0
		for j := range ids {
			if out.keys[j] != "" && out.keys[i] != "" && vCmpVer(vers[j], vers[i]) < 0 {
				r++
			}
		}
		out.rank[i] = r
	}
	inTable := map[string]bool{}
	for _, f := range spdxlicenses.LicenseRanges() {
		for _, g := range f {
			for _, x := range g {
				if k, _, ok := vFamver(x); ok {
					inTable[k] = true
				}
			}
		}
	}
	for i := range ids {
		out.covered[i] = out.keys[i] != "" && inTable[out.keys[i]]
	}
	return out
}

// VH_reach [py]: X+ against Y (py=0) or Y+ (py=1), X and Y over all ids.
func VH_reach(a []string) {
	ids := vTableIDs()
	fv := vTableFamver()
	i := vPickInt(0, len(ids)-1, "x")
	j := vPickInt(0, len(ids)-1, "y")
	x, y := ids[i]+"+", ids[j]
	if a[0] == "1" {
		y += "+"
	} else {
		vAssume(!fv.orLater[j]) // Y-or-later is itself a '+' term
	}
	got, err := Satisfies(x, []string{y})
	vNote("text", "Satisfies("+vShow(x)+", ["+vShow(y)+"])")
	vAssert(err == nil, "valid-terms-accepted")
	sameKey := vAnd(vAnd(fv.keys[i] != "", fv.keys[j] != ""), vStrEq(fv.keys[i], fv.keys[j]))
	sameID := vStrEq(ids[i], ids[j])
	// (b) '+' never crosses families
	vAssert(vImplies(got, vOr(sameID, sameKey)), "plus-stays-in-family")
	// (a)+(f) inside a covered family '+' reaches exactly the same or later versions
	want := fv.rank[j] >= fv.rank[i]
	if a[0] == "1" {
		want = true
	}
	vAssert(vImplies(vAnd(sameKey, fv.covered[i]), vIff(got, want)), "plus-reaches-iff-later")
}

// flattened table positions
type vPosT struct {
	id            []string
	fam, grp, idx []int
}

func vTablePositions() vPosT {
	var p vPosT
	for i, f := range spdxlicenses.LicenseRanges() {
		for j, g := range f {
			for k, x := range g {
				p.id = append(p.id, x)
				p.fam = append(p.fam, i)
				p.grp = append(p.grp, j)
				p.idx = append(p.idx, k)
			}
		}
	}
	return p
}

// VH_tableWellFormed []: every table position p holds a listed id, at exactly one
// position; inside a family all ids share one natural family key, version groups ascend
// strictly in the natural version order and hold one version each ('-or-later' entries,
// which lookups never reach, are ignored).
func VH_tableWellFormed(a []string) {
	pt := vTablePositions()
	n := len(pt.id)
	p := vPickInt(0, n-1, "p")
	q := vPickInt(0, n-1, "q")
	idp, idq := pt.id[p], pt.id[q]
	vNote("text", vShow(idp)+" / "+vShow(idq))
	listed := vOr(vInListExact(spdxlicenses.GetLicenses(), idp), vInListExact(spdxlicenses.GetDeprecated(), idp))
	vAssert(listed, "entry-listed")
	vAssert(vImplies(vStrEq(idp, idq), p == q), "entry-at-one-position")
	fvp, fvq := vTablePosFamver(), vTablePosFamver()
	lp, lq := fvp.orLater[p], fvq.orLater[q]
	both := vAnd(vNot(lp), vNot(lq))
	sameFam := pt.fam[p] == pt.fam[q]
	vAssert(vImplies(vAnd(both, sameFam), vStrEq(fvp.keys[p], fvq.keys[q])), "family-one-key")
	vAssert(vImplies(both, fvp.keys[p] != ""), "entry-versioned")
	sameGrp := vAnd(sameFam, pt.grp[p] == pt.grp[q])
	vAssert(vImplies(vAnd(both, sameGrp), fvp.rank[p] == fvq.rank[q]), "group-one-version")
	vAssert(vImplies(vAnd(both, vAnd(sameFam, pt.grp[p] < pt.grp[q])), fvp.rank[p] < fvq.rank[q]), "groups-ascending")
}

func vTablePosFamver() vFV {
	pt := vTablePositions()
	n := len(pt.id)
	out := vFV{keys: make([]string, n), rank: make([]int, n), orLater: make([]bool, n)}
	vers := make([][]int, n)
	for i, id := range pt.id {
		k, v, ok := vFamver(id)
		if ok {
			out.keys[i], vers[i] = k, v
		}
		out.orLater[i] = strings.HasSuffix(id, "-or-later")
	}
	for i := range pt.id {
		r := 0
		for j := range pt.id {
			if out.keys[j] != "" && out.keys[i] != "" && vCmpVer(vers[j], vers[i]) < 0 {
				r++
			}
		}
		out.rank[i] = r
	}
	return out
}

// VH_tableLookup []: the library's own lookup of the id at table position p returns p's own
// version group (duplicates and shadowing show up here), observed through the public API:
// an id matches every member of its own group and '+' orders groups as the table lists them.
func VH_tableLookup(a []string) {
	pt := vTablePositions()
	n := len(pt.id)
	fv := vTablePosFamver()
	p := vPickInt(0, n-1, "p")
	q := vPickInt(0, n-1, "q")
	vAssume(!fv.orLater[p])
	vAssume(!fv.orLater[q])
	got, err := Satisfies(pt.id[p], []string{pt.id[q]})
	gotPlus, err2 := Satisfies(pt.id[p]+"+", []string{pt.id[q]})
	vNote("text", "Satisfies("+vShow(pt.id[p])+"[+], ["+vShow(pt.id[q])+"])")
	vAssert(vAnd(err == nil, err2 == nil), "valid-terms-accepted")
	sameFam := pt.fam[p] == pt.fam[q]
	sameGrp := vAnd(sameFam, pt.grp[p] == pt.grp[q])
	vAssert(vIff(got, vOr(sameGrp, vStrEq(pt.id[p], pt.id[q]))), "entry-at-own-position")
	vAssert(vIff(gotPlus, vOr(vAnd(sameFam, pt.grp[q] >= pt.grp[p]), vStrEq(pt.id[p], pt.id[q]))), "entry-at-own-position")
}

// VH_jsonAgree [which id0 id1 ...]: the shipped list equals, entry by entry and in order, the
// list the driver derived from the SPDX JSON file in the repository (by the statement's
// partition rule, with the JSON keys of the SPDX data - not the generator's struct tags).
func VH_jsonAgree(a []string) {
	table := vList(a[0])
	want := a[1:]
	vNote("text", "len(table)="+vItoa(len(table))+" len(json)="+vItoa(len(want)))
	vAssert(len(table) == len(want), "tables-equal-json")
	n := len(table)
	if len(want) < n {
		n = len(want)
	}
	if n == 0 {
		return
	}
	i := vPickInt(0, n-1, "i")
	vNote("text", "entry "+vShow(table[i])+" vs json "+vShow(want[i]))
	vAssert(vStrEq(table[i], want[i]), "tables-equal-json")
}

// letters whose Unicode simple case folding lands on an ASCII letter: U+017F (long s) -> s,
// U+212A (Kelvin sign) -> k. A scanner that admits non-ASCII letters together with a
// fold-insensitive lookup would accept ids spelled with them.
func vConfuse(id string, which int) string {
	out := ""
	n := 0
	for i := 0; i < len(id); i++ {
		c := id[i]
		if (c == 's' || c == 'S') && (which == 0 || which == 2) {
			out += "\u017f"
			n++
		} else if (c == 'k' || c == 'K') && (which == 1 || which == 2) {
			out += "\u212a"
			n++
		} else {
			out += string(rune(c))
		}
	}
	if n == 0 {
		return ""
	}
	return out
}

func vTableConfusables(list string, which string) []string {
	ids := vList(list)
	out := make([]string, len(ids))
	for i, id := range ids {
		out[i] = vConfuse(id, vAtoi(which))
	}
	return out
}

// VH_nonASCII [list which]: ids re-spelled with non-ASCII letters that fold to ASCII are not
// SPDX ids: the id alphabet is [A-Za-z0-9-.]; every such spelling is rejected everywhere.
func VH_nonASCII(a []string) {
	tab := vTableConfusables(a[0], a[1])
	k := vPickInt(0, len(tab)-1, "k")
	t := tab[k]
	vAssume(t != "")
	text := t
	if a[0] == "exception" {
		text = "MIT WITH " + t
	}
	vNote("text", vShow(text))
	vAssert(vNot(vValid(text)), "non-ascii-spelling-rejected")
	_, err := ExtractLicenses(text)
	vAssert(err != nil, "non-ascii-spelling-rejected")
	_, err2 := Satisfies("MIT", []string{text})
	vAssert(err2 != nil, "non-ascii-spelling-rejected")
}

// ---------------------------------------------------------------- C05: reference idstrings

// vIDStrings: every string of 1..n bytes over {a, Z, 9, -, .} (the idstring alphabet classes)
func vIDStrings(n int) []string {
	alpha := []string{"a", "Z", "9", "-", "."}
	out := []string{}
	level := []string{""}
	for l := 1; l <= n; l++ {
		next := []string{}
		for _, p := range level {
			for _, c := range alpha {
				next = append(next, p+c)
			}
		}
		out = append(out, next...)
		level = next
	}
	return out
}

// VH_refShapes [where n]: the grammar's idstring is 1*(ALPHA / DIGIT / "-" / "."), with no
// rule about where '-' and '.' may stand; every such string is a valid LicenseRef /
// DocumentRef name, is reported unchanged and matches itself.
func VH_refShapes(a []string) {
	tab := vIDStrings(vAtoi(a[1]))
	k := vConcretize(vPickInt(0, len(tab)-1, "k"))
	id := tab[k]
	text := "LicenseRef-" + id
	if a[0] == "doc" {
		text = "DocumentRef-" + id + ":LicenseRef-x"
	}
	if a[0] == "ctx" {
		text = "MIT OR LicenseRef-" + id
	}
	vNote("text", vShow(text))
	vAssert(vValid(text), "ref-idstring-accepted")
	l, err := ExtractLicenses(text)
	vAssert(err == nil, "ref-idstring-accepted")
	if err == nil && a[0] != "ctx" {
		vAssert(len(l) == 1 && l[0] == text, "ref-idstring-accepted")
	}
	r, err2 := Satisfies(text, []string{"LicenseRef-" + id, "DocumentRef-" + id + ":LicenseRef-x"})
	vAssert(err2 == nil && r, "ref-idstring-accepted")
}
