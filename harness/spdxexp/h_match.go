//go:build verif

package spdxexp

// L-MATCH through the public API: Satisfies(a, [b]) for single terms a, b against the
// documented matching relation of property C02 (DESIGN.md appendix B.3). The ids are choice
// variables over every listed id, so one solver query covers all id pairs.

import (
	"strings"

	"github.com/github/go-spdx/v2/spdxexp/spdxlicenses"
)

// every id that can be written as a license term without '+' (active ++ deprecated without '+').
// Functions named vTable* are computed once per run by the engine (memoised, concrete).
func vTableIDs() []string {
	var ids []string
	ids = append(ids, spdxlicenses.GetLicenses()...)
	for _, d := range spdxlicenses.GetDeprecated() {
		if !strings.HasSuffix(d, "+") {
			ids = append(ids, d)
		}
	}
	return ids
}

func vStripOrLater(id string) string {
	if strings.HasSuffix(id, "-or-later") {
		return id[:len(id)-9]
	}
	return id
}

// position of every id in the shipped family table: family, version group, number of positions
func vTablePos() [][]int {
	ids := vTableIDs()
	ranges := spdxlicenses.LicenseRanges()
	out := make([][]int, 3)
	for k := 0; k < 3; k++ {
		out[k] = make([]int, len(ids))
	}
	for n, id := range ids {
		s := vStripOrLater(id)
		fam, ver, cnt := -1, -1, 0
		for i, f := range ranges {
			for j, g := range f {
				for _, x := range g {
					if x == s {
						if cnt == 0 {
							fam, ver = i, j
						}
						cnt++
					}
				}
			}
		}
		out[0][n], out[1][n], out[2][n] = fam, ver, cnt
	}
	return out
}

// is id+"-or-later" an active id? (then "id+" is normalised to that id)
func vTableHasOrLater() []bool {
	ids := vTableIDs()
	act := spdxlicenses.GetLicenses()
	out := make([]bool, len(ids))
	for n, id := range ids {
		for _, x := range act {
			if x == id+"-or-later" {
				out[n] = true
			}
		}
	}
	return out
}

var vRefTexts = []string{"LicenseRef-a", "LicenseRef-b", "LicenseRef-A", "DocumentRef-d:LicenseRef-a", "DocumentRef-e:LicenseRef-a", "DocumentRef-d:LicenseRef-b", "DocumentRef-D:LicenseRef-a"}

// one side of a match: a term text plus what the oracle needs to know about it
type vTerm struct {
	text  string
	isRef bool
	idx   int    // index into vTableIDs (licenses)
	plus  bool   // carries '+' (written, or implied by -or-later)
	exc   string // "" or exception id
}

// mk [kind plus exc]: kind L (license over all ids) | R (reference); plus 0/1; exc "-" or id
func vMkTerm(kind, plus, exc, name string) vTerm {
	if kind == "R" {
		r := vPickInt(0, len(vRefTexts)-1, name)
		return vTerm{text: vRefTexts[r], isRef: true}
	}
	ids := vTableIDs()
	i := vPickInt(0, len(ids)-1, name)
	t := vTerm{idx: i, text: ids[i]}
	if plus == "1" {
		t.text += "+"
		t.plus = true
	}
	if exc != "-" {
		t.text += " WITH " + exc
		t.exc = exc
	}
	return t
}

func vWantMatch(x, y vTerm) bool {
	if x.isRef || y.isRef {
		if x.isRef && y.isRef {
			return vStrEq(x.text, y.text)
		}
		return false
	}
	if x.exc != y.exc {
		return false
	}
	ids := vTableIDs()
	pos := vTablePos()
	hol := vTableHasOrLater()
	// normalisation done by the scanner: "X+" with X-or-later listed is the term X-or-later
	idx, idy := ids[x.idx], ids[y.idx]
	px := vOr(x.plus, strings.HasSuffix(idx, "-or-later"))
	py := vOr(y.plus, strings.HasSuffix(idy, "-or-later"))
	if x.plus {
		idx = vIteStr(hol[x.idx], idx+"-or-later", idx)
	}
	if y.plus {
		idy = vIteStr(hol[y.idx], idy+"-or-later", idy)
	}
	same := vStrEq(idx, idy)
	fx, fy := pos[0][x.idx], pos[0][y.idx]
	vx, vy := pos[1][x.idx], pos[1][y.idx]
	covered := vAnd(vAnd(fx >= 0, fy >= 0), fx == fy)
	rel := vOr(vAnd(vAnd(vNot(px), vNot(py)), vx == vy),
		vOr(vAnd(px, py),
			vOr(vAnd(vAnd(px, vNot(py)), vy >= vx),
				vAnd(vAnd(vNot(px), py), vx >= vy))))
	// ids that sit at several table positions make the documented relation ambiguous: C11's matter
	vAssume(pos[2][x.idx] <= 1)
	vAssume(pos[2][y.idx] <= 1)
	return vOr(same, vAnd(covered, rel))
}

// VH_match [kindA plusA excA kindB plusB excB]
func VH_match(a []string) {
	x := vMkTerm(a[0], a[1], a[2], "a")
	y := vMkTerm(a[3], a[4], a[5], "b")
	want := vWantMatch(x, y)
	got, err := Satisfies(x.text, []string{y.text})
	vNote("text", "Satisfies("+vShow(x.text)+", ["+vShow(y.text)+"])")
	vAssert(err == nil, "valid-terms-accepted")
	vAssert(vIff(got, want), "match-iff-documented")
	rev, err2 := Satisfies(y.text, []string{x.text})
	vAssert(err2 == nil, "valid-terms-accepted")
	vAssert(vIff(got, rev), "match-symmetric")
	vAssert(vImplies(vStrEq(x.text, y.text), got), "match-reflexive")
}

// texts "id[+]" and "id[+] WITH e" for every exception e (index len(exceptions) = no exception)
func vTableExcTexts(id string, plus string) []string {
	exc := spdxlicenses.GetExceptions()
	base := id
	if plus == "1" {
		base += "+"
	}
	out := make([]string, len(exc)+1)
	for k, e := range exc {
		out[k] = base + " WITH " + e
	}
	out[len(exc)] = base
	return out
}

// VH_matchExc [idA plusA idB plusB]: two concrete ids, the exception on each side a choice
// variable over ALL exception ids (or none): exception status and text must agree for a match,
// and the license part must match as it does without exceptions.
func VH_matchExc(a []string) {
	ta := vTableExcTexts(a[0], a[1])
	tb := vTableExcTexts(a[2], a[3])
	i := vPickInt(0, len(ta)-1, "ea")
	j := vPickInt(0, len(tb)-1, "eb")
	x, y := ta[i], tb[j]
	vNote("text", "Satisfies("+vShow(x)+", ["+vShow(y)+"])")
	got, err := Satisfies(x, []string{y})
	vAssert(err == nil, "valid-terms-accepted")
	bare, err2 := Satisfies(ta[len(ta)-1], []string{tb[len(tb)-1]})
	vAssert(err2 == nil, "valid-terms-accepted")
	vAssert(vIff(got, vAnd(bare, i == j)), "exception-must-agree")
}
