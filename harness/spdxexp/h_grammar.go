//go:build verif

package spdxexp

// The documented grammar over the harness's own token type (no library internals): token
// classes, the reference recogniser (DESIGN.md appendix B.1), list-membership helpers.

import "strings"

const (
	vOp = iota
	vDocRef
	vLicRef
	vLic
	vExcT
)

type vTok struct {
	role  int
	value string
}

// token classes the scanner can emit; license values differ only in what the parser can
// observe of them (the "-or-later" suffix)
var vTokRoles = []int{vOp, vOp, vOp, vOp, vOp, vOp, vOp, vDocRef, vLicRef, vLic, vLic, vExcT}
var vTokVals = []string{"WITH", "AND", "OR", "(", ")", ":", "+",
	"d", "r", "MIT", "GPL-2.0-or-later", "Bison-exception-2.2"}
var vTokText = []string{"WITH", "AND", "OR", "(", ")", ":", "+",
	"DocumentRef-d", "LicenseRef-r", "MIT", "GPL-2.0-or-later", "Bison-exception-2.2"}

var vOps = []string{"WITH", "AND", "OR", "(", ")", ":", "+"}

// case-insensitive membership as one formula (no forking on symbolic operands)
func vListedFold(list []string, s string) bool {
	r := false
	for _, x := range list {
		r = vOr(r, strings.EqualFold(x, s))
	}
	return r
}

func vInListExact(list []string, s string) bool {
	r := false
	for _, x := range list {
		r = vOr(r, vStrEq(x, s))
	}
	return r
}

// reference recogniser (DESIGN.md appendix B.1)
type vrp struct {
	t []vTok
	i int
}

func (p *vrp) op(v string) bool {
	return p.i < len(p.t) && p.t[p.i].role == vOp && p.t[p.i].value == v
}
func (p *vrp) expr() bool {
	if !p.and() {
		return false
	}
	for p.op("OR") {
		p.i++
		if !p.and() {
			return false
		}
	}
	return true
}
func (p *vrp) and() bool {
	if !p.atom() {
		return false
	}
	for p.op("AND") {
		p.i++
		if !p.atom() {
			return false
		}
	}
	return true
}
func (p *vrp) atom() bool {
	if p.i >= len(p.t) {
		return false
	}
	if p.op("(") {
		p.i++
		if !p.expr() {
			return false
		}
		if !p.op(")") {
			return false
		}
		p.i++
		return true
	}
	role := p.t[p.i].role
	if role == vDocRef {
		p.i++
		if !p.op(":") {
			return false
		}
		p.i++
		if p.i >= len(p.t) || p.t[p.i].role != vLicRef {
			return false
		}
		p.i++
		return true
	}
	if role == vLicRef {
		p.i++
		return true
	}
	if role == vLic {
		p.i++
		if p.op("+") {
			p.i++
		}
		if p.op("WITH") {
			p.i++
			if p.i >= len(p.t) || p.t[p.i].role != vExcT {
				return false
			}
			p.i++
		}
		return true
	}
	return false
}

func vAccept(t []vTok) bool {
	p := &vrp{t: t}
	return len(t) > 0 && p.expr() && p.i == len(t)
}
