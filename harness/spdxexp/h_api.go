//go:build verif

package spdxexp

// Entry-point harnesses: C03 (no panic), C04 (one notion of validity), C05 (rendered token
// sequences), C13 (purity), C15 (error offsets). Public API only.

import "strings"

// ---------------------------------------------------------------- C03 / C04 on raw bytes

// VH_bytes [L shard]: every byte string of length L through the three entry points. shard
// (0..15, or -1 for all) restricts the first byte to one sixteenth of its range, so that the
// work spreads over the cores.
func VH_bytes(a []string) {
	L := vAtoi(a[0])
	buf := vBytes(L, "buf")
	if sh := vAtoi(a[1]); sh >= 0 && L > 0 {
		vAssume(buf[0] >= byte(16*sh))
		vAssume(buf[0] <= byte(16*sh+15))
	}
	vNote("text", vShow(buf))
	ok, inv := ValidateLicenses([]string{buf})
	vAssert(ok == (len(inv) == 0), "flag-iff-none-invalid")
	if !ok {
		vAssert(len(inv) == 1 && vStrEq(inv[0], buf), "invalid-elements-in-order")
	}
	l, err := ExtractLicenses(buf)
	vAssert((err == nil) == ok, "extract-err-iff-invalid")
	vAssert(err == nil || l == nil, "false-or-nil-on-error")
	r, err2 := Satisfies(buf, []string{"MIT"})
	vAssert((err2 == nil) == ok, "satisfies-err-iff-invalid")
	vAssert(err2 == nil || !r, "false-or-nil-on-error")
	r3, err3 := Satisfies("MIT", []string{buf})
	if !ok {
		vAssert(err3 != nil, "allowed-err-iff-invalid-or-compound")
	}
	vAssert(err3 == nil || !r3, "false-or-nil-on-error")
	_, err4 := Satisfies(buf, []string{})
	vAssert(err4 != nil, "empty-list-errs")
	_, err5 := Satisfies(buf, nil)
	vAssert(err5 != nil, "empty-list-errs")
}

// VH_argShapes []: nil / empty slices and empty strings.
func VH_argShapes(a []string) {
	ok, inv := ValidateLicenses(nil)
	vAssert(ok && len(inv) == 0, "flag-iff-none-invalid")
	ok, inv = ValidateLicenses([]string{})
	vAssert(ok && len(inv) == 0, "flag-iff-none-invalid")
	ok, inv = ValidateLicenses([]string{""})
	vAssert(!ok && len(inv) == 1, "invalid-elements-in-order")
	ok, inv = ValidateLicenses([]string{"", "MIT", ""})
	vAssert(!ok && len(inv) == 2, "invalid-elements-in-order")
	l, err := ExtractLicenses("")
	vAssert(err != nil && l == nil, "extract-err-iff-invalid")
	r, err2 := Satisfies("", nil)
	vAssert(err2 != nil && !r, "satisfies-err-iff-invalid")
	r, err2 = Satisfies("MIT", []string{""})
	vAssert(err2 != nil && !r, "allowed-err-iff-invalid-or-compound")
	r, err2 = Satisfies("MIT", []string{"MIT", ""})
	vAssert(err2 != nil && !r, "allowed-err-iff-invalid-or-compound")
	r, err2 = Satisfies("MIT", nil)
	vAssert(err2 != nil && !r, "empty-list-errs")
	r, err2 = Satisfies("MIT", []string{})
	vAssert(err2 != nil && !r, "empty-list-errs")
}

// ---------------------------------------------------------------- C04 lists

// pool of strings; flags: V valid single term, C valid compound, I invalid
var vPool = []string{"MIT", "mit", "(MIT)", " MIT ", "GPL-2.0+", "LicenseRef-a", "DocumentRef-d:LicenseRef-a", "MIT WITH Bison-exception-2.2",
	"MIT AND ISC", "MIT OR ISC", "(MIT OR ISC)", "FOO", "", " ", "(", "MIT AND", "MIT ISC", ")", "MIT WITH", "DocumentRef-a", "Bison-exception-2.2", "MIT +", "\xff", "LicenseRef-a+",
	"Apache-2.0-or-later", "(Apache-2.0-or-later)", "GPL-2.0-only AND (MIT OR ISC)"}
var vPoolKind = "VVVVVVVVCCCIIIIIIIIIIIIIVVC"

// VH_lists [n]: ValidateLicenses returns exactly the invalid elements, in order, with
// multiplicity; Satisfies rejects a list iff it has an invalid or compound element.
func VH_lists(a []string) {
	n := vAtoi(a[0])
	l := make([]string, n)
	kind := make([]byte, n)
	idx := make([]int, n)
	for i := 0; i < n; i++ {
		k := vPickInt(0, len(vPool)-1, "e")
		l[i] = vPool[k]
		idx[i] = k
	}
	vNote("text", "ValidateLicenses / Satisfies(\"MIT\", "+vShowList(l)+")")
	before := append([]string(nil), l...)
	ok, inv := ValidateLicenses(l)
	// which elements are invalid, per element (splits the domains)
	var want []string
	anyBad := false
	for i := 0; i < n; i++ {
		kind[i] = vPoolKind[idx[i]]
		if kind[i] == 'I' {
			want = append(want, l[i])
		}
		if kind[i] != 'V' {
			anyBad = true
		}
	}
	vAssert(ok == (len(want) == 0), "flag-iff-none-invalid")
	vAssert(len(inv) == len(want), "invalid-elements-in-order")
	if len(inv) == len(want) {
		for i := range inv {
			vAssert(vStrEq(inv[i], want[i]), "invalid-elements-in-order")
		}
	}
	for i := range l {
		vAssert(vStrEq(l[i], before[i]), "args-unchanged")
	}
	if n > 0 {
		r, err := Satisfies("MIT", l)
		vAssert((err != nil) == anyBad, "allowed-err-iff-invalid-or-compound")
		vAssert(err == nil || !r, "false-or-nil-on-error")
		for i := range l {
			vAssert(vStrEq(l[i], before[i]), "args-unchanged")
		}
	}
}

// VH_poolKinds []: the pool's flags are what the library itself says about each string alone
// (so the list harness cannot ask for more than single-string validity).
func VH_poolKinds(a []string) {
	k := vConcretize(vPickInt(0, len(vPool)-1, "k"))
	s := vPool[k]
	vNote("text", vShow(s))
	ok, _ := ValidateLicenses([]string{s})
	vAssert(ok == (vPoolKind[k] != 'I'), "pool-flag-valid")
	if ok {
		ts, err := ExtractLicenses(s)
		vAssert(err == nil, "extract-err-iff-invalid")
		_, err2 := Satisfies("MIT", []string{s})
		vAssert((err2 != nil) == (vPoolKind[k] == 'C'), "pool-flag-compound")
		if vPoolKind[k] == 'V' {
			vAssert(len(ts) == 1, "pool-flag-compound")
		}
	}
}

// ---------------------------------------------------------------- C05 rendered token sequences

// index of kw as a whole word (not part of an id) in s, or -1
func vIndexWord(s, kw string) int {
	for i := 0; i+len(kw) <= len(s); i++ {
		if s[i:i+len(kw)] == kw && (i == 0 || !vIsIDChar(s[i-1])) && (i+len(kw) == len(s) || !vIsIDChar(s[i+len(kw)])) {
			return i
		}
	}
	return -1
}

func vIsWordy(s string, first bool) bool {
	if len(s) == 0 {
		return false
	}
	c := s[len(s)-1]
	if first {
		c = s[0]
	}
	return vIsIDChar(c)
}

// VH_renderTokens [n style]: every sequence of n token classes rendered to text in tight
// (no space unless two word characters would touch), single or loose spacing is valid iff
// the grammar accepts the token sequence; all entry points agree on that.
func VH_renderTokens(a []string) {
	n, style := vAtoi(a[0]), a[1]
	toks := make([]vTok, n)
	text := ""
	prev := ""
	for i := 0; i < n; i++ {
		c := vConcretize(vPickInt(0, len(vTokRoles)-1, "c"))
		toks[i] = vTok{role: vTokRoles[c], value: vTokVals[c]}
		t := vTokText[c]
		sep := ""
		if i > 0 && t != "+" {
			switch style {
			case "tight":
				if vIsWordy(prev, false) && vIsWordy(t, true) {
					sep = " "
				}
			case "single":
				sep = " "
			default:
				sep = "   "
			}
		}
		text += sep + t
		prev = t
	}
	if style == "loose" {
		text = "  " + text + " "
	}
	want := vAccept(toks)
	vNote("text", vShow(text))
	ok, inv := ValidateLicenses([]string{text})
	vAssert(ok == want, "accept-iff-grammar")
	// operators are upper-case only: the same text with a keyword operator in lower case is
	// never valid - also right after the upper-case spelling has been accepted
	for _, kw := range []string{"AND", "OR", "WITH"} {
		if j := vIndexWord(text, kw); j >= 0 {
			low := text[:j] + strings.ToLower(kw) + text[j+len(kw):]
			vNote("text", vShow(low))
			okLow, _ := ValidateLicenses([]string{low})
			vAssert(!okLow, "lower-case-operator-rejected")
			_, errLow := ExtractLicenses(low)
			vAssert(errLow != nil, "lower-case-operator-rejected")
			vNote("text", vShow(text))
		}
	}
	vAssert(ok == (len(inv) == 0), "flag-iff-none-invalid")
	_, err := ExtractLicenses(text)
	vAssert((err == nil) == ok, "extract-err-iff-invalid")
	_, err2 := Satisfies(text, []string{"MIT"})
	vAssert((err2 == nil) == ok, "satisfies-err-iff-invalid")
}

// ---------------------------------------------------------------- C15 error offsets

var vPrefixes = []string{"", "MIT AND ", "(", "GPL-2.0-or-later OR ", "Apache-2.0-or-later AND ", "Apache-2.0+ AND ", "(LicenseRef-a OR ",
	"mit-or-later AND ( ", "GPL-2.0+ WITH Bison-exception-2.2 AND ", "ISC-or-later AND Zlib-or-later OR ", "DocumentRef-d:LicenseRef-r AND   ", "MIT-only OR "}

// VH_offsets [prefix k form] (prefix: the text itself, or #i for the i-th built-in prefix): an unknown id of k symbolic id characters (form "id"), or a
// stray byte / truncated reference (form "stray", "ref"), after a valid prefix.
func VH_offsets(a []string) {
	prefix, k, form := a[0], vAtoi(a[1]), a[2]
	if len(a[0]) > 0 && a[0][0] == '#' {
		prefix = vPrefixes[vAtoi(a[0][1:])]
	}
	culprit := ""
	switch form {
	case "id":
		culprit = vBytes(k, "id")
		for i := 0; i < k; i++ {
			vAssume(vIsIDChar(culprit[i]))
		}
	case "stray":
		culprit = vBytes(1, "stray")
		vAssume(!vIsIDChar(culprit[0]))
	case "ref":
		culprit = "LicenseRef-" + vBytes(k, "after")
		if k > 0 {
			vAssume(!vIsIDChar(culprit[11]))
		}
	case "docref":
		culprit = "DocumentRef-" + vBytes(k, "after")
		if k > 0 {
			vAssume(!vIsIDChar(culprit[12]))
		}
	}
	vOffsetsOne(prefix+culprit, form)
	// the same culprit again, now at the start of the string: a message must not remember
	// where the lexeme stood in an earlier call
	if prefix != "" {
		vOffsetsOne(culprit, form)
		vOffsetsOne("MIT OR  "+culprit, form)
	}
}

func vOffsetsOne(text string, form string) {
	vNote("text", vShow(text))
	_, err := ExtractLicenses(text)
	if err == nil {
		return
	}
	msg := err.Error()
	// "... at offset N" at the very end
	end := len(msg)
	i := end
	for i > 0 && vIsDigitConc(msg[i-1]) {
		i--
	}
	const marker = " at offset "
	if i == end || i < len(marker) || !vStrEqConc(msg[i-len(marker):i], marker) {
		return // not an offset-bearing message
	}
	off := vAtoi(vConcretizeStr(msg[i:end]))
	vAssert(off >= 0 && off <= len(text), "offset-in-range")
	if off < 0 || off > len(text) {
		return
	}
	head := msg[:i-len(marker)]
	// cited lexeme: between the first quote and the last quote of head
	q1 := -1
	for j := 0; j < len(head); j++ {
		if vIsQuoteConc(head[j]) {
			q1 = j
			break
		}
	}
	if q1 >= 0 && len(head) > q1+1 && vIsQuoteConc(head[len(head)-1]) {
		lex := head[q1+1 : len(head)-1]
		vAssert(off+len(lex) <= len(text), "lexeme-at-offset")
		if off+len(lex) <= len(text) {
			vAssert(vStrEq(text[off:off+len(lex)], lex), "lexeme-at-offset")
		}
		return
	}
	// no cited lexeme: for a stray byte or a truncated reference the message locates a
	// missing id, so no id character stands at that offset of the caller's string (the
	// wording of the message is not prescribed)
	if form != "id" {
		if off < len(text) {
			vAssert(!vIsIDChar(text[off]), "missing-id-offset")
		}
		if off > 0 && form != "stray" {
			vAssert(text[off-1] == '-', "missing-id-offset")
		}
	}
}
