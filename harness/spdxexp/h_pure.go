//go:build verif

package spdxexp

// C13: frame and determinism of the exported functions. Under the engine vOutputs() counts
// output effects and vGlobalWrites() counts stores to package-level state; natively
// vOutputs() reports the bytes the process wrote to stdout/stderr, and the concurrent
// section (replay only) runs the same calls from several goroutines under the race detector.

import (
	"strings"
	"sync"
)

func vSameList(a, b []string) bool {
	if len(a) != len(b) {
		return false
	}
	r := true
	for i := range a {
		r = vAnd(r, vStrEq(a[i], b[i]))
	}
	return r
}

// the workload of one pure-check: all three entry points on (text, allowed)
func vWorkload(text string, allowed []string) (bool, bool, []string, bool, bool, []string) {
	r, e := Satisfies(text, allowed)
	l, e2 := ExtractLicenses(text)
	ok, inv := ValidateLicenses(allowed)
	return r, e == nil, l, e2 == nil, ok, inv
}

func vCheckPure(text string, allowed []string) {
	before := append([]string(nil), allowed...)
	o0, g0 := vOutputs(), vGlobalWrites()
	// related inputs (another letter case, trailing white space): what the library says about
	// them must not depend on whether the original has been processed in between
	low, padded := strings.ToLower(text), text+"\t"
	lowOK0, padOK0 := vValid(low), vValid(padded)
	lowX0, lowE0 := ExtractLicenses(low)
	lowAllowed := make([]string, len(allowed))
	for i := range allowed {
		lowAllowed[i] = strings.ToLower(allowed[i])
	}
	lowR0, lowSE0 := Satisfies(text, lowAllowed)
	r1, e1, l1, x1, ok1, inv1 := vWorkload(text, allowed)
	lowX1, lowE1 := ExtractLicenses(low)
	vAssert(vAnd(vIff(lowOK0, vValid(low)), vIff(padOK0, vValid(padded))), "same-result-after-related-calls")
	vAssert((lowE0 == nil) == (lowE1 == nil) && vSameList(lowX0, lowX1), "same-result-after-related-calls")
	lowR1, lowSE1 := Satisfies(text, lowAllowed)
	vAssert(vAnd((lowSE0 == nil) == (lowSE1 == nil), vIff(lowR0, lowR1)), "same-result-after-related-calls")
	vAssert(vSameList(allowed, before), "args-unchanged")
	// again, in another order, after other calls
	ok2, inv2 := ValidateLicenses(allowed)
	l2, xe2 := ExtractLicenses(text)
	r2, se2 := Satisfies(text, allowed)
	vAssert(vSameList(allowed, before), "args-unchanged")
	vAssert(vAnd(e1 == (se2 == nil), vIff(r1, r2)), "same-result-twice")
	vAssert(x1 == (xe2 == nil) && vSameList(l1, l2), "same-result-twice")
	vAssert(vAnd(vIff(ok1, ok2), vSameList(inv1, inv2)), "same-result-twice")
	vAssert(vOutputs() == o0, "no-output")
	_ = g0 // writes to package-level state are reported in the evidence (effects); whether
	// they are harmful is decided by the behavioural assertions here and by the concurrent
	// run under the race detector below
	if vReplaying() {
		// concurrent callers sharing the argument slice: same results, no data race (the
		// runner is built with -race for this harness family)
		var wg sync.WaitGroup
		bad := make([]bool, 8)
		for g := 0; g < 8; g++ {
			wg.Add(1)
			go func(g int) {
				defer wg.Done()
				for it := 0; it < 20; it++ {
					cr, ce, cl, cx, cok, cinv := vWorkload(text, allowed)
					if cr != r1 || ce != e1 || cx != x1 || cok != ok1 || !vSameList(cl, l1) || !vSameList(cinv, inv1) {
						bad[g] = true
					}
				}
			}(g)
		}
		wg.Wait()
		for g := range bad {
			vAssert(!bad[g], "same-result-concurrently")
		}
		vAssert(vSameList(allowed, before), "args-unchanged")
	}
}

// VH_pureTree [enc kinds ident mode m]: valid expressions with symbolic allowed lists.
func VH_pureTree(a []string) {
	enc, kinds, ident, mode, m := a[0], a[1], a[2], a[3][0], vAtoi(a[4])
	leaves := vLeaves(kinds, ident)
	text := vText(enc, leaves, mode)
	allowed := vPickAllowed(vUniverse(kinds, ident, true), m)
	vNote("text", "("+vShow(text)+", "+vShowList(allowed)+")")
	vCheckPure(text, allowed)
}

// VH_purePool [n]: arbitrary (valid, compound, invalid) strings as expression and as list.
func VH_purePool(a []string) {
	n := vAtoi(a[0])
	text := vPool[vPickInt(0, len(vPool)-1, "t")]
	l := make([]string, n)
	for i := 0; i < n; i++ {
		l[i] = vPool[vPickInt(0, len(vPool)-1, "e")]
	}
	vNote("text", "("+vShow(text)+", "+vShowList(l)+")")
	vCheckPure(text, l)
}

// VH_pureBytes [L]: arbitrary bytes.
func VH_pureBytes(a []string) {
	buf := vBytes(vAtoi(a[0]), "buf")
	for i := 0; i < len(buf); i++ {
		vAssume(buf[i] < 0x80) // purity, not byte-level parsing, is the subject: ASCII keeps string helpers of a changed library encodable
	}
	vNote("text", vShow(buf))
	vCheckPure(buf, []string{buf, "MIT"})
}
