//go:build verif

package spdxexp

// L-PARSE: the real token parser against the grammar of property C05, for every token
// sequence up to a bound. Also C03 (no panic on any token sequence the scanner can emit)
// and C04/C13 material through the lifted text.

// token classes the scanner can emit; license values differ only in what the parser can
// observe of them (the "-or-later" suffix)
var vTokRoles = []tokenrole{operatorToken, operatorToken, operatorToken, operatorToken, operatorToken, operatorToken, operatorToken,
	documentRefToken, licenseRefToken, licenseToken, licenseToken, exceptionToken}
var vTokVals = []string{"WITH", "AND", "OR", "(", ")", ":", "+",
	"d", "r", "MIT", "GPL-2.0-or-later", "Bison-exception-2.2"}
var vTokText = []string{"WITH", "AND", "OR", "(", ")", ":", "+",
	"DocumentRef-d", "LicenseRef-r", "MIT", "GPL-2.0-or-later", "Bison-exception-2.2"}

// reference recogniser (DESIGN.md appendix B.1)
type vrp struct {
	t []token
	i int
}

func (p *vrp) op(v string) bool {
	return p.i < len(p.t) && p.t[p.i].role == operatorToken && p.t[p.i].value == v
}
func (p *vrp) expr() bool {
	if !p.and() {
		return false
	}
	for p.op("OR") {
		p.i++
		if !p.and() {
			return false
		}
	}
	return true
}
func (p *vrp) and() bool {
	if !p.atom() {
		return false
	}
	for p.op("AND") {
		p.i++
		if !p.atom() {
			return false
		}
	}
	return true
}
func (p *vrp) atom() bool {
	if p.i >= len(p.t) {
		return false
	}
	if p.op("(") {
		p.i++
		if !p.expr() {
			return false
		}
		if !p.op(")") {
			return false
		}
		p.i++
		return true
	}
	role := p.t[p.i].role
	if role == documentRefToken {
		p.i++
		if !p.op(":") {
			return false
		}
		p.i++
		if p.i >= len(p.t) || p.t[p.i].role != licenseRefToken {
			return false
		}
		p.i++
		return true
	}
	if role == licenseRefToken {
		p.i++
		return true
	}
	if role == licenseToken {
		p.i++
		if p.op("+") {
			p.i++
		}
		if p.op("WITH") {
			p.i++
			if p.i >= len(p.t) || p.t[p.i].role != exceptionToken {
				return false
			}
			p.i++
		}
		return true
	}
	return false
}

func vAccept(t []token) bool {
	p := &vrp{t: t}
	return len(t) > 0 && p.expr() && p.i == len(t)
}

// render a token sequence to text: single spaces, '+' glued to its predecessor
func vRender(cls []int) string {
	s := ""
	for i, c := range cls {
		if i > 0 && vTokVals[c] != "+" {
			s += " "
		}
		s += vTokText[c]
	}
	return s
}

// VH_parseTokens [n]: all token sequences of exactly n tokens.
func VH_parseTokens(a []string) {
	n := vAtoi(a[0])
	toks := make([]token, n)
	cls := make([]int, n)
	for i := 0; i < n; i++ {
		c := vPickInt(0, len(vTokRoles)-1, "c")
		cls[i] = c
		toks[i] = token{role: vTokRoles[c], value: vTokVals[c]}
	}
	want := vAccept(toks)
	if vReplaying() {
		// lift to the public API: the rendered text must scan to these tokens and be judged
		// valid exactly when the grammar accepts
		for i := range cls {
			cls[i] = vConcretize(cls[i])
		}
		text := vRender(cls)
		vNote("text", text)
		st, serr := scan(text)
		same := serr == nil && len(st) == len(toks)
		if same {
			for i := range st {
				if st[i] != toks[i] {
					same = false
				}
			}
		}
		vNote("lift", "scan-differs")
		if same {
			vNote("lift", "ok")
			ok, _ := ValidateLicenses([]string{text})
			vAssert(ok == want, "accept-iff-grammar")
		}
		return
	}
	ts := &tokenStream{tokens: toks}
	nd := ts.parseTokens()
	got := nd != nil && ts.err == nil
	vAssert(got == want, "accept-iff-grammar")
	vAssert((nd == nil) == (ts.err != nil), "node-xor-error")
}
