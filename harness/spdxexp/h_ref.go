//go:build verif

package spdxexp

// Reference lexer for whole texts (DESIGN.md appendix B.2), used natively to lift unit-level
// counterexamples to the public API, and by the engine on concrete texts.

import (
	"strings"

	"github.com/github/go-spdx/v2/spdxexp/spdxlicenses"
)

func vFoldFind(list []string, s string) (string, bool) {
	for _, x := range list {
		if strings.EqualFold(x, s) {
			return x, true
		}
	}
	return "", false
}

// vRefScan returns the reference tokens of text; ok=false: the reference rejects;
// abstain=true: the statement is silent about some lexeme of the text.
func vRefScan(text string) (toks []vTok, ok bool, abstain bool) {
	active, exc, depr := spdxlicenses.GetLicenses(), spdxlicenses.GetExceptions(), spdxlicenses.GetDeprecated()
	look := func(s string) (vTok, bool) {
		if v, f := vFoldFind(active, s); f {
			return vTok{role: vLic, value: v}, true
		}
		if v, f := vFoldFind(exc, s); f {
			return vTok{role: vExcT, value: v}, true
		}
		return vTok{}, false
	}
	anyList := func(s string) bool {
		_, a := vFoldFind(active, s)
		_, b := vFoldFind(exc, s)
		_, c := vFoldFind(depr, s)
		return a || b || c
	}
	i := 0
	for i < len(text) {
		if text[i] == ' ' {
			i++
			continue
		}
		rest := text[i:]
		matched := false
		for _, op := range vOps {
			if strings.HasPrefix(rest, op) {
				if op == "+" && i >= 1 && text[i-1] == ' ' {
					return nil, false, false
				}
				if len(op) > 1 && len(rest) > len(op) && vIsIDChar(rest[len(op)]) {
					abstain = true
				}
				toks = append(toks, vTok{role: vOp, value: op})
				i += len(op)
				matched = true
				break
			}
		}
		if matched {
			continue
		}
		isRef := false
		for k, pre := range []string{"DocumentRef-", "LicenseRef-"} {
			if strings.HasPrefix(rest, pre) {
				j := len(pre)
				for j < len(rest) && vIsIDChar(rest[j]) {
					j++
				}
				if j == len(pre) {
					return nil, false, abstain
				}
				role := vDocRef
				if k == 1 {
					role = vLicRef
				}
				toks = append(toks, vTok{role: role, value: rest[len(pre):j]})
				i += j
				isRef = true
				break
			}
		}
		if isRef {
			continue
		}
		j := 0
		for j < len(rest) && vIsIDChar(rest[j]) {
			j++
		}
		if j == 0 {
			return nil, false, abstain
		}
		run := rest[:j]
		m := len(run)
		if t, f := look(run); f {
			toks = append(toks, t)
			i += j
			continue
		}
		if m > 5 && strings.HasSuffix(run, "-only") {
			if t, f := look(run[:m-5]); f {
				if t.role == vExcT {
					abstain = true
				}
				toks = append(toks, t)
				i += j
				continue
			}
		}
		if j < len(rest) && rest[j] == '+' {
			if t, f := look(run + "-or-later"); f {
				if t.role == vExcT {
					abstain = true
				}
				toks = append(toks, t)
				i += j + 1
				continue
			}
		}
		if m > 9 && strings.HasSuffix(run, "-or-later") {
			if t, f := look(run[:m-9]); f {
				if t.role == vExcT {
					abstain = true
				}
				toks = append(toks, t, vTok{role: vOp, value: "+"})
				i += j
				continue
			}
		}
		if v, f := vFoldFind(depr, run); f {
			toks = append(toks, vTok{role: vLic, value: v})
			i += j
			continue
		}
		if m > 5 && strings.EqualFold(run[m-5:], "-only") && anyList(run[:m-5]) {
			abstain = true
		}
		if m > 9 && strings.EqualFold(run[m-9:], "-or-later") && anyList(run[:m-9]) {
			abstain = true
		}
		return nil, false, abstain
	}
	return toks, true, abstain
}

// reference validity of a whole text
func vRefValid(text string) (valid bool, abstain bool) {
	toks, ok, abst := vRefScan(text)
	if !ok {
		return false, abst
	}
	return vAccept(toks), abst
}

// lift a unit-level lexer counterexample to the public API: the buffer itself is a caller's
// string whose scan passes through the unit state (its first p bytes are spaces or '(').
func vLiftLex(buf string, assertID string) {
	want, abst := vRefValid(buf)
	got, _ := ValidateLicenses([]string{buf})
	vNote("text", "ValidateLicenses(["+vShow(buf)+"])")
	if abst {
		vNote("lift", "unrealizable")
		return
	}
	if got != want {
		vNote("lift", "ok")
		vAssert(false, assertID)
		return
	}
	// same validity: try the run in a context where a mis-scanned remainder shows
	for _, ctx := range []string{"(" + buf + ")", buf + " AND MIT", "MIT OR " + buf, buf + ")",
		"MIT " + buf + "MIT)", "MIT " + buf + "MIT", "(MIT " + buf + " MIT)", "MIT" + buf, "MIT " + buf + "Bison-exception-2.2"} {
		w, a2 := vRefValid(ctx)
		g, _ := ValidateLicenses([]string{ctx})
		if !a2 && g != w {
			vNote("text", "ValidateLicenses(["+vShow(ctx)+"])")
			vNote("lift", "ok")
			vAssert(false, assertID)
			return
		}
	}
	vNote("lift", "unrealizable")
}

// lift with the solver's arbitrary bytes after the lexeme replaced by benign continuations:
// the deviation of one scanner step usually does not depend on them
func vLiftLexParts(pre, lexeme, post string, assertID string) {
	vLiftLex(pre+lexeme+post, assertID)
	if vRT.notes["lift"] == "ok" {
		return
	}
	for _, tail := range []string{"", " ", "(", ")", "(MIT)", " MIT", "+", " AND MIT", ")AND(MIT)"} {
		for _, head := range []string{pre, "", "MIT ", "(MIT)", "(MIT "} {
			if tail == post && head == pre {
				continue
			}
			vLiftLex(head+lexeme+tail, assertID)
			if vRT.notes["lift"] == "ok" {
				return
			}
		}
	}
}
