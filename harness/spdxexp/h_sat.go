//go:build verif

package spdxexp

// L-SAT: the public Satisfies / ExtractLicenses on bounded expression trees, for every
// allowed list of m entries over a universe (choice variables). Properties C01, C06, C07, C10.
//
// A tree is a Polish string: '&' l r | '|' l r | leaf digit (index into the leaf arrays).
// kinds[i] is the kind of leaf i, ident[i] its identity (index into the pool of its kind).

import "strings"

// license pool: a version family first, so that small trees already mix versions
var vLicPool = []string{"GPL-2.0-only", "GPL-3.0-only", "MIT", "Apache-2.0", "LGPL-2.1-only", "MPL-2.0", "ISC", "BSD-3-Clause", "GPL-1.0-only", "Apache-1.1"}
var vLaterPool = []string{"GPL-2.0-or-later", "GPL-3.0-or-later", "", "", "LGPL-2.1-or-later", "", "", "", "GPL-1.0-or-later", ""}

// a later version of the same family in the pool (-1: none)
var vNextPool = []int{1, -1, -1, -1, -1, -1, -1, -1, 0, 3}

const vExc = "Bison-exception-2.2"

func vLeafText(kind byte, id int) string {
	switch kind {
	case 'L':
		return vLicPool[id]
	case 'P':
		return vLicPool[id] + "+"
	case 'W':
		return vLicPool[id] + " WITH " + vExc
	case 'Q':
		return vLicPool[id] + "+ WITH " + vExc
	case 'U':
		return strings.ToUpper(vLicPool[id])
	case 'r':
		return "LicenseRef-" + string(rune('A'+id))
	case 'O':
		if vLaterPool[id] != "" {
			return vLaterPool[id]
		}
		return vLicPool[id] + "+"
	case 'l':
		return strings.ToLower(vLicPool[id])
	case 'R':
		return "LicenseRef-" + string(rune('a'+id))
	case 'D':
		return "DocumentRef-d" + string(rune('a'+id)) + ":LicenseRef-x"
	}
	return "?"
}

func vLeaves(kinds, ident string) []string {
	t := make([]string, len(kinds))
	for i := range t {
		t[i] = vLeafText(kinds[i], int(ident[i]-'0'))
	}
	return t
}

// print: mode 'F' = parentheses around every operator node, 'M' = only where precedence
// requires them, 'S' = as 'M' with irregular spacing, 'T' = as 'F' but tight: no space between
// an operator and an adjacent parenthesis, as in "(A AND B)OR(C)".
func vPrint(enc string, pos *int, leaves []string, mode byte, parent byte) string {
	c := enc[*pos]
	*pos++
	if c != '&' && c != '|' {
		return leaves[int(c-'0')]
	}
	l := vPrint(enc, pos, leaves, mode, c)
	r := vPrint(enc, pos, leaves, mode, c)
	op := " AND "
	if c == '|' {
		op = " OR "
	}
	if mode == 'S' {
		op = "  " + op + " "
	}
	if mode == 'T' {
		w := "AND"
		if c == '|' {
			w = "OR"
		}
		if l[len(l)-1] != ')' {
			w = " " + w
		}
		if r[0] != '(' {
			w += " "
		}
		return "(" + l + w + r + ")"
	}
	s := l + op + r
	if mode == 'F' {
		return "(" + s + ")"
	}
	if c == '|' && parent == '&' {
		if mode == 'S' {
			return "( " + s + " )"
		}
		return "(" + s + ")"
	}
	return s
}

func vText(enc string, leaves []string, mode byte) string {
	pos := 0
	return vPrint(enc, &pos, leaves, mode, 0)
}

func vEval(enc string, pos *int, truth []bool) bool {
	c := enc[*pos]
	*pos++
	if c == '&' {
		l := vEval(enc, pos, truth)
		r := vEval(enc, pos, truth)
		return vAnd(l, r)
	}
	if c == '|' {
		l := vEval(enc, pos, truth)
		r := vEval(enc, pos, truth)
		return vOr(l, r)
	}
	return truth[int(c-'0')]
}

// universe of allowed entries for a set of leaves: the leaves themselves, re-spellings,
// neighbours in the version family, unrelated terms
func vUniverse(kinds, ident string, big bool) []string {
	var u []string
	add := func(s string) {
		for _, x := range u {
			if x == s {
				return
			}
		}
		u = append(u, s)
	}
	for i := range kinds {
		add(vLeafText(kinds[i], int(ident[i]-'0')))
	}
	for i := range kinds {
		id := int(ident[i] - '0')
		switch kinds[i] {
		case 'L', 'P', 'W', 'O', 'l', 'Q', 'U':
			add(vLicPool[id])
			if big {
				add(vLicPool[id] + "+")
				add(vLicPool[id] + " WITH " + vExc)
				if nx := vNextPool[id]; nx >= 0 {
					add(vLicPool[nx])
					if kinds[i] == 'W' || kinds[i] == 'Q' {
						add(vLicPool[nx] + " WITH " + vExc)
					}
				}
			}
		case 'D':
			if big {
				add("LicenseRef-x")
			}
		case 'R':
			if big {
				add("LicenseRef-" + string(rune('A'+id)))
			}
		}
	}
	add("Zlib")
	if big {
		add("GPL-1.0-only+")
		add("LicenseRef-zz")
		add("(MIT)")
		add(" mit ")
	}
	return u
}

// truth of leaf i under the allowed list: some entry matches that single term on its own
func vLeafTruth(leaf string, allowed []string) bool {
	t := false
	for j := range allowed {
		r, err := Satisfies(leaf, []string{allowed[j]})
		vAssert(err == nil, "no-error-on-valid")
		t = vOr(t, r)
	}
	return t
}

func vPickAllowed(u []string, m int) []string {
	allowed := make([]string, m)
	for j := 0; j < m; j++ {
		allowed[j] = u[vPickInt(0, len(u)-1, "a")]
	}
	return allowed
}

// allowed lists that are strictly increasing in a universe sorted by text: every subset of
// the universe of size m, once (order and repetition are C07's subject)
func vPickSubset(u []string, m int) []string {
	u = append([]string(nil), u...)
	for i := 1; i < len(u); i++ {
		for j := i; j > 0 && u[j] < u[j-1]; j-- {
			u[j], u[j-1] = u[j-1], u[j]
		}
	}
	allowed := make([]string, m)
	prev := -1
	for j := 0; j < m; j++ {
		k := vPickInt(0, len(u)-1, "a")
		if j > 0 {
			vAssume(prev < k)
		}
		prev = k
		allowed[j] = u[k]
	}
	return allowed
}

// VH_sat [enc kinds ident mode m big subset]: Satisfies == Boolean evaluation (C01).
func VH_sat(a []string) {
	enc, kinds, ident, mode, m, big := a[0], a[1], a[2], a[3][0], vAtoi(a[4]), a[5] == "1"
	leaves := vLeaves(kinds, ident)
	text := vText(enc, leaves, mode)
	var allowed []string
	if len(a) > 6 && a[6] == "1" {
		allowed = vPickSubset(vUniverse(kinds, ident, big), m)
	} else {
		allowed = vPickAllowed(vUniverse(kinds, ident, big), m)
	}
	vNote("text", "Satisfies("+vShow(text)+", "+vShowList(allowed)+")")
	vNote("sig", vSig(enc, kinds, ident, mode))
	got, err := Satisfies(text, allowed)
	vAssert(err == nil, "no-error-on-valid")
	truth := make([]bool, len(leaves))
	for i := range leaves {
		truth[i] = vLeafTruth(leaves[i], allowed)
	}
	pos := 0
	want := vEval(enc, &pos, truth)
	vAssert(vIff(got, want), "satisfies-iff-boolean-eval")
}

func vSig(enc, kinds, ident string, mode byte) string {
	return enc + "/" + kinds + "/" + ident + "/" + string(rune(mode))
}

// VH_extract [enc kinds ident mode]: ExtractLicenses returns exactly the distinct terms (C06).
func VH_extract(a []string) {
	enc, kinds, ident, mode := a[0], a[1], a[2], a[3][0]
	leaves := vLeaves(kinds, ident)
	text := vText(enc, leaves, mode)
	vNote("text", "ExtractLicenses("+vShow(text)+")")
	vNote("sig", vSig(enc, kinds, ident, mode))
	got, err := ExtractLicenses(text)
	vAssert(err == nil && got != nil, "no-error-on-valid")
	if err != nil {
		return
	}
	// canonical term of every leaf: what ExtractLicenses says about the leaf on its own
	var want []string
	for _, l := range leaves {
		one, e1 := ExtractLicenses(l)
		vAssert(e1 == nil && len(one) == 1, "leaf-is-single-term")
		if e1 != nil || len(one) != 1 {
			return
		}
		dup := false
		for _, w := range want {
			if w == one[0] {
				dup = true
			}
		}
		if !dup {
			want = append(want, one[0])
		}
	}
	for i := range got {
		for j := i + 1; j < len(got); j++ {
			vAssert(got[i] != got[j], "no-duplicates")
		}
	}
	for _, w := range want {
		found := false
		for _, g := range got {
			if g == w {
				found = true
			}
		}
		vAssert(found, "no-term-missing")
	}
	for _, g := range got {
		found := false
		for _, w := range want {
			if g == w {
				found = true
			}
		}
		vAssert(found, "no-term-invented")
		vAssert(vValid(g), "returned-is-valid")
		again, e2 := ExtractLicenses(g)
		vAssert(e2 == nil && len(again) == 1 && again[0] == g, "returned-is-fixpoint")
	}
	ok, e3 := Satisfies(text, got)
	vAssert(e3 == nil && ok, "self-satisfying")
}

func vPermute(xs []string, k int) []string {
	// k-th permutation (factorial number system)
	pool := append([]string(nil), xs...)
	var out []string
	for n := len(pool); n > 0; n-- {
		i := k % n
		k /= n
		out = append(out, pool[i])
		pool = append(pool[:i], pool[i+1:]...)
	}
	return out
}

// VH_set [enc kinds ident mode m big aspect]: order, repetition, re-spelling and extension of
// the allowed list (C07). aspect: perm | dup | respell | mono
func VH_set(a []string) {
	enc, kinds, ident, mode, m, big, aspect := a[0], a[1], a[2], a[3][0], vAtoi(a[4]), a[5] == "1", a[6]
	leaves := vLeaves(kinds, ident)
	text := vText(enc, leaves, mode)
	u := vUniverse(kinds, ident, big)
	allowed := vPickAllowed(u, m)
	vNote("text", "Satisfies("+vShow(text)+", "+vShowList(allowed)+" and its variants)")
	vNote("sig", vSig(enc, kinds, ident, mode))
	base, err := Satisfies(text, allowed)
	vAssert(err == nil, "no-error-on-valid")
	nperm := 1
	for i := 2; i <= m; i++ {
		nperm *= i
	}
	for k := 1; k < nperm && aspect == "perm"; k++ {
		r, e := Satisfies(text, vPermute(allowed, k))
		vAssert(vAnd(e == nil, vIff(r, base)), "permutation-invariant")
	}
	for k := 0; k < m && aspect == "dup"; k++ {
		dup := append(append([]string(nil), allowed...), allowed[k])
		r, e := Satisfies(text, dup)
		vAssert(vAnd(e == nil, vIff(r, base)), "duplicate-invariant")
		front := append([]string{allowed[k]}, allowed...)
		r2, e2 := Satisfies(text, front)
		vAssert(vAnd(e2 == nil, vIff(r2, base)), "duplicate-invariant")
	}
	// re-spelling: letter case of the id, surrounding spaces, parentheses
	for style := 0; style < 4 && aspect == "respell"; style++ {
		re := make([]string, m)
		for j := range allowed {
			re[j] = vRespell(allowed[j], style)
		}
		r, e := Satisfies(text, re)
		vAssert(vAnd(e == nil, vIff(r, base)), "respelling-invariant")
	}
	if aspect != "mono" {
		return
	}
	extra := u[vPickInt(0, len(u)-1, "b")]
	ext := append(append([]string(nil), allowed...), extra)
	r, e := Satisfies(text, ext)
	vAssert(e == nil, "no-error-on-valid")
	vAssert(vImplies(base, r), "monotone")
	ext2 := append([]string{extra}, allowed...)
	r2, e2 := Satisfies(text, ext2)
	vAssert(vAnd(e2 == nil, vIff(r, r2)), "permutation-invariant")
}

// re-spell an allowed entry: only the id part changes case (WITH, refs and suffixes added
// to other ids are outside C09's claim, so only whole listed ids are re-cased)
func vRespell(s string, style int) string {
	switch style {
	case 0:
		return " " + s + "  "
	case 1:
		return "(" + s + ")"
	case 2:
		return "( " + s + " )"
	}
	if strings.HasPrefix(s, "LicenseRef-") || strings.HasPrefix(s, "DocumentRef-") || strings.HasPrefix(s, "(") || strings.HasPrefix(s, " ") {
		return s
	}
	// lower-case the license id; keep '+' and ' WITH exception'
	i := strings.Index(s, " WITH ")
	if i < 0 {
		return strings.ToLower(s)
	}
	return strings.ToLower(s[:i]) + s[i:]
}

// VH_hom [encE encF kinds ident mode m big]: Satisfies("(E) op (F)", A) == Satisfies(E,A) op Satisfies(F,A) (C10).
// Leaves of F are numbered after those of E.
func VH_hom(a []string) {
	encE, encF, kinds, ident, mode, m, big := a[0], a[1], a[2], a[3], a[4][0], vAtoi(a[5]), a[6] == "1"
	leaves := vLeaves(kinds, ident)
	te, tf := vText(encE, leaves, mode), vText(encF, leaves, mode)
	allowed := vPickAllowed(vUniverse(kinds, ident, big), m)
	vNote("sig", encE+"~"+encF+"/"+kinds+"/"+ident+"/"+string(rune(mode)))
	re, e1 := Satisfies(te, allowed)
	rf, e2 := Satisfies(tf, allowed)
	vAssert(e1 == nil && e2 == nil, "no-error-on-valid")
	rAnd, e3 := Satisfies("("+te+") AND ("+tf+")", allowed)
	vNote("text", "Satisfies("+vShow("("+te+") AND|OR ("+tf+")")+", "+vShowList(allowed)+")")
	vAssert(vAnd(e3 == nil, vIff(rAnd, vAnd(re, rf))), "and-homomorphic")
	rOr, e4 := Satisfies("("+te+") OR ("+tf+")", allowed)
	vAssert(vAnd(e4 == nil, vIff(rOr, vOr(re, rf))), "or-homomorphic")
}

// VH_rewrite [encL encR kinds ident modeL modeR m big sameTerms subset]: two expressions related by a
// Boolean-algebra rewrite get the same verdict under every allowed list, and (unless the
// rule drops terms) the same set from ExtractLicenses (C10).
func VH_rewrite(a []string) {
	encL, encR, kinds, ident, modeL, modeR, m, big, sameTerms := a[0], a[1], a[2], a[3], a[4][0], a[5][0], vAtoi(a[6]), a[7] == "1", a[8] == "1"
	leaves := vLeaves(kinds, ident)
	tl, tr := vText(encL, leaves, modeL), vText(encR, leaves, modeR)
	var allowed []string
	if len(a) > 9 && a[9] == "1" {
		allowed = vPickSubset(vUniverse(kinds, ident, big), m)
	} else {
		allowed = vPickAllowed(vUniverse(kinds, ident, big), m)
	}
	vNote("text", "Satisfies("+vShow(tl)+" vs "+vShow(tr)+", "+vShowList(allowed)+")")
	vNote("sig", encL+"~"+encR+"/"+kinds+"/"+ident+"/"+string(rune(modeL))+string(rune(modeR)))
	rl, e1 := Satisfies(tl, allowed)
	rr, e2 := Satisfies(tr, allowed)
	vAssert(e1 == nil && e2 == nil, "no-error-on-valid")
	vAssert(vIff(rl, rr), "rewrite-preserves-verdict")
	if sameTerms {
		xl, e3 := ExtractLicenses(tl)
		xr, e4 := ExtractLicenses(tr)
		vAssert(e3 == nil && e4 == nil, "no-error-on-valid")
		same := len(xl) == len(xr)
		for _, x := range xl {
			found := false
			for _, y := range xr {
				if x == y {
					found = true
				}
			}
			same = same && found
		}
		vAssert(same, "rewrite-preserves-terms")
	}
}
