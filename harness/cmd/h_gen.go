//go:build verif

package main

// C12, generator clause: the real extractLicenseIDs / extractExceptionLicenseIDs executed
// symbolically on a stub document of k entries whose ids are symbolic byte strings and whose
// isDeprecatedLicenseId / isOsiApproved flags are symbolic booleans. The JSON decoder stub
// fills Go fields by their json tags (read from the SSA types), so a wrong tag is seen.

// VH_generator [which k (prefix linePre linePost suffix) x files]: which = licenses | exceptions.
// The template of each generated file is taken from the committed file itself by the driver:
// committed = prefix ++ (linePre ++ id ++ linePost for every id the JSON data yields) ++ suffix
// (the driver verifies that decomposition); re-running the generator on other data must
// produce the same prefix and suffix around the entry lines of that data.
func VH_generator(a []string) {
	which, k := a[0], vAtoi(a[1])
	ids := make([]string, k)
	dep := make([]bool, k)
	osi := make([]bool, k)
	for i := 0; i < k; i++ {
		n := 1 + i%3
		ids[i] = vBytes(n, "id")
		for j := 0; j < n; j++ {
			vAssume(vIsIDChar(ids[i][j]))
		}
		dep[i] = vBool("deprecated")
		osi[i] = vBool("osi")
	}
	vStubJSON(which+".json", ids, dep, osi)
	var err error
	if which == "licenses" {
		err = extractLicenseIDs()
	} else {
		err = extractExceptionLicenseIDs()
	}
	vAssert(err == nil, "generator-runs")
	if err != nil {
		return
	}
	// the statement's partition rule
	active, deprecated := "", ""
	for i := 0; i < k; i++ {
		if dep[i] {
			if which == "licenses" {
				deprecated += a[7] + ids[i] + a[8]
			}
		} else {
			active += a[3] + ids[i] + a[4]
		}
	}
	if which == "licenses" {
		vAssert(vWrittenCount() == 2, "generator-files")
		if vWrittenCount() != 2 {
			return
		}
		// native order is by name (get_deprecated.go, get_licenses.go); engine order is write order
		ia, id := 0, 1
		if vWrittenPath(0) == "../spdxexp/spdxlicenses/get_deprecated.go" {
			ia, id = 1, 0
		}
		vAssert(vWrittenPath(ia) == "../spdxexp/spdxlicenses/get_licenses.go", "generator-files")
		vAssert(vWrittenPath(id) == "../spdxexp/spdxlicenses/get_deprecated.go", "generator-files")
		vAssert(vStrEq(vWrittenData(ia), a[2]+active+a[5]), "generator-partition-and-format")
		vAssert(vStrEq(vWrittenData(id), a[6]+deprecated+a[9]), "generator-partition-and-format")
		return
	}
	vAssert(vWrittenCount() == 1, "generator-files")
	if vWrittenCount() != 1 {
		return
	}
	vAssert(vWrittenPath(0) == "../spdxexp/spdxlicenses/get_exceptions.go", "generator-files")
	vAssert(vStrEq(vWrittenData(0), a[2]+active+a[5]), "generator-partition-and-format")
}
