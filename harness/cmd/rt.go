//go:build verif

package main

// Harness runtime. Under the symbolic engine every function in this file is intercepted by
// name and its body ignored. Compiled natively (go test -tags verif), the vPick*/vBytes/...
// functions read a replay vector produced from a solver model, so that a counterexample or a
// reachability witness is re-executed against the real build.

import (
	"encoding/hex"
	"encoding/json"
	"fmt"
	"os"
	"path/filepath"
	"strconv"
)

type vEntry struct {
	Name  string `json:"name"`
	Kind  string `json:"kind"`
	Int   int64  `json:"int,omitempty"`
	Bool  bool   `json:"bool,omitempty"`
	Bytes string `json:"bytes,omitempty"`
}

type vAssumeFailed struct{}
type vMismatch struct{ msg string }

var vRT struct {
	vec     []vEntry
	pos     int
	failed  []string
	reached []string
	notes   map[string]string
}

func vReset(vec []vEntry) {
	vRT.vec, vRT.pos, vRT.failed, vRT.reached, vRT.notes = vec, 0, nil, nil, map[string]string{}
}

func vNext(name, kind string) vEntry {
	if vRT.pos >= len(vRT.vec) {
		panic(vMismatch{"replay vector exhausted at " + name})
	}
	e := vRT.vec[vRT.pos]
	vRT.pos++
	if e.Name != name || e.Kind != kind {
		panic(vMismatch{fmt.Sprintf("replay vector mismatch: want %s/%s, have %s/%s", name, kind, e.Name, e.Kind)})
	}
	return e
}

func vPickInt(lo, hi int, name string) int {
	e := vNext(name, "int")
	if int(e.Int) < lo || int(e.Int) > hi {
		panic(vMismatch{"value out of range for " + name})
	}
	return int(e.Int)
}

func vBytes(n int, name string) string {
	e := vNext(name, "bytes")
	b, err := hex.DecodeString(e.Bytes)
	if err != nil || len(b) != n {
		panic(vMismatch{"bad bytes for " + name})
	}
	return string(b)
}

func vBool(name string) bool { return vNext(name, "bool").Bool }

func vCaseMask(s string, name string) string {
	e := vNext(name, "mask")
	b, err := hex.DecodeString(e.Bytes)
	if err != nil || len(b) != len(s) {
		panic(vMismatch{"bad mask for " + name})
	}
	return string(b)
}

func vAssert(c bool, id string) {
	vRT.reached = append(vRT.reached, id)
	if !c {
		vRT.failed = append(vRT.failed, id)
	}
}

func vAssume(c bool) {
	if !c {
		panic(vAssumeFailed{})
	}
}

func vAnd(a, b bool) bool     { return a && b }
func vOr(a, b bool) bool      { return a || b }
func vNot(a bool) bool        { return !a }
func vImplies(a, b bool) bool { return !a || b }
func vIff(a, b bool) bool     { return a == b }
func vStrEq(a, b string) bool { return a == b }

func vIsIDChar(b byte) bool {
	return b >= 'A' && b <= 'Z' || b >= 'a' && b <= 'z' || b >= '0' && b <= '9' || b == '-' || b == '.'
}

func vConcretize(x int) int          { return x }
func vConcretizeStr(s string) string { return s }
func vReplaying() bool               { return true }
func vNote(k, v string)              { vRT.notes[k] = v }
func vGlobalWrites() int             { return 0 }

// bytes written to stdout/stderr since the runner started capturing (native); number of
// output effects (engine)
func vOutputs() int {
	if vOutputProbe != nil {
		return vOutputProbe()
	}
	return 0
}

var vOutputProbe func() int

func vAtoi(s string) int {
	n, err := strconv.Atoi(s)
	if err != nil {
		panic(vMismatch{"bad integer argument " + s})
	}
	return n
}

func vItoa(n int) string { return strconv.Itoa(n) }

func vIteStr(c bool, a, b string) string {
	if c {
		return a
	}
	return b
}
func vShow(s string) string { return strconv.Quote(s) }

func vShowList(l []string) string {
	s := "["
	for i, x := range l {
		if i > 0 {
			s += ", "
		}
		s += strconv.Quote(x)
	}
	return s + "]"
}

func vIsDigitConc(b byte) bool    { return b >= '0' && b <= '9' }
func vIsQuoteConc(b byte) bool    { return b == '\'' }
func vStrEqConc(a, b string) bool { return a == b }

func vFailedAny() bool { return len(vRT.failed) > 0 }

func vShowBool(b bool) string {
	if b {
		return "true"
	}
	return "false"
}

// ---- generator environment (native side): a scratch directory tree with the stub JSON file;
// the generator runs with cmd/ of that tree as working directory, so that its relative
// reads and writes stay inside the scratch tree.

var vGenDir string
var vGenOldWd string

func vStubJSON(name string, ids []string, dep []bool, osi []bool) {
	if vGenDir == "" {
		d, err := os.MkdirTemp("", "vgen")
		if err != nil {
			panic(vMismatch{"cannot create scratch dir"})
		}
		vGenDir = d
		os.MkdirAll(filepath.Join(d, "cmd"), 0o755)
		os.MkdirAll(filepath.Join(d, "spdxexp", "spdxlicenses"), 0o755)
		vGenOldWd, _ = os.Getwd()
		os.Chdir(filepath.Join(d, "cmd"))
	}
	listKey, idKey := "licenses", "licenseId"
	if len(name) >= 10 && name[:10] == "exceptions" {
		listKey, idKey = "exceptions", "licenseExceptionId"
	}
	var list []map[string]interface{}
	for k := range ids {
		e := map[string]interface{}{"reference": "https://spdx.org/licenses/x.html", "detailsUrl": "https://spdx.org/licenses/x.json", "name": "a name",
			"referenceNumber": k + 1, idKey: ids[k], "isDeprecatedLicenseId": dep[k], "seeAlso": []string{}}
		if listKey == "licenses" {
			e["isOsiApproved"] = osi[k]
		}
		list = append(list, e)
	}
	doc := map[string]interface{}{"licenseListVersion": "stub", listKey: list, "releaseDate": "2024-01-01"}
	b, _ := json.Marshal(doc)
	os.WriteFile(filepath.Join(vGenDir, "cmd", name), b, 0o644)
}

func vGenCleanup() {
	if vGenDir != "" {
		os.Chdir(vGenOldWd)
		os.RemoveAll(vGenDir)
		vGenDir = ""
	}
}

func vWrittenFiles() []string {
	m, _ := filepath.Glob(filepath.Join(vGenDir, "spdxexp", "spdxlicenses", "*"))
	return m
}

// files the generator wrote, in name order (native) / in write order (engine)
func vWrittenCount() int { return len(vWrittenFiles()) }
func vWrittenPath(i int) string {
	return "../spdxexp/spdxlicenses/" + filepath.Base(vWrittenFiles()[i])
}
func vWrittenData(i int) string {
	b, _ := os.ReadFile(vWrittenFiles()[i])
	return string(b)
}
