//go:build verif

package spdxexp

// L-PARSE (uses library internals: tokenStream, parseTokens, token): the real token parser
// against the grammar of property C05, for every token sequence up to a bound. Also C03 (no
// panic on any token sequence the scanner can emit).

var vLibRole = []tokenrole{operatorToken, documentRefToken, licenseRefToken, licenseToken, exceptionToken}

// render a token sequence to text: single spaces, '+' glued to its predecessor
func vRender(cls []int) string {
	s := ""
	for i, c := range cls {
		if i > 0 && vTokVals[c] != "+" {
			s += " "
		}
		s += vTokText[c]
	}
	return s
}

// VH_parseTokens [n first]: all token sequences of exactly n tokens (first: class of the first
// token, or - for all; used to spread long sequences over the cores).
func VH_parseTokens(a []string) {
	n := vAtoi(a[0])
	toks := make([]token, n)
	rtoks := make([]vTok, n)
	cls := make([]int, n)
	for i := 0; i < n; i++ {
		c := vPickInt(0, len(vTokRoles)-1, "c")
		if i == 0 && len(a) > 1 && a[1] != "-" {
			vAssume(c == vAtoi(a[1])) // shard: the class of the first token is fixed
		}
		cls[i] = c
		toks[i] = token{role: vLibRole[vTokRoles[c]], value: vTokVals[c]}
		rtoks[i] = vTok{role: vTokRoles[c], value: vTokVals[c]}
	}
	want := vAccept(rtoks)
	if vReplaying() {
		// lift to the public API: the rendered text must scan to these tokens and be judged
		// valid exactly when the grammar accepts
		for i := range cls {
			cls[i] = vConcretize(cls[i])
		}
		text := vRender(cls)
		vNote("text", text)
		st, serr := scan(text)
		same := serr == nil && len(st) == len(toks)
		if same {
			for i := range st {
				if st[i] != toks[i] {
					same = false
				}
			}
		}
		vNote("lift", "scan-differs")
		if same {
			vNote("lift", "ok")
			ok, _ := ValidateLicenses([]string{text})
			vAssert(ok == want, "accept-iff-grammar")
		}
		return
	}
	ts := &tokenStream{tokens: toks}
	nd := ts.parseTokens()
	got := nd != nil && ts.err == nil
	vAssert(got == want, "accept-iff-grammar")
	vAssert((nd == nil) == (ts.err != nil), "node-xor-error")
}
