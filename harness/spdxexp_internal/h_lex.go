//go:build verif

package spdxexp

// L-LEX (uses library internals: expressionStream, skipWhitespace, parseToken): one step of the real scanner from an arbitrary position of an arbitrary buffer,
// against the lexeme -> token map of properties C05/C08/C09 (DESIGN.md appendix B.2).

import (
	"strings"

	"github.com/github/go-spdx/v2/spdxexp/spdxlicenses"
)

// VH_lexID [p m c]: buffer = p arbitrary bytes ++ run of exactly m id characters ++ c bytes
// (the first of them not an id character); the scanner is at index p.
func VH_lexID(a []string) {
	p, m, c := vAtoi(a[0]), vAtoi(a[1]), vAtoi(a[2])
	buf := vBytes(p+m+c, "buf")
	vReachablePrefix(buf, p)
	vLexIDBody(a, buf, p, m, c)
	if vReplaying() && vFailedAny() {
		vLiftLexParts(buf[:p], buf[p:p+m], buf[p+m:], "api")
	}
}

// the bytes before the scanner's index are ones a scan can have consumed without emitting
// anything the step depends on: spaces and open parentheses. Every such (buffer, index) state
// is reached by scanning the buffer itself from the start.
func vReachablePrefix(buf string, p int) {
	for i := 0; i < p; i++ {
		vAssume(vOr(buf[i] == ' ', buf[i] == '('))
	}
}

func vLexIDBody(a []string, buf string, p, m, c int) {
	for i := p; i < p+m; i++ {
		vAssume(vIsIDChar(buf[i]))
	}
	if c > 0 {
		vAssume(!vIsIDChar(buf[p+m]))
	}
	run := buf[p : p+m]
	post := buf[p+m:]
	// keyword or reference prefix glued to the run: other lexeme kinds (VH_lexOp / VH_lexRef)
	vAssume(!strings.HasPrefix(run, "WITH"))
	vAssume(!strings.HasPrefix(run, "AND"))
	vAssume(!strings.HasPrefix(run, "OR"))
	vAssume(!strings.HasPrefix(run, "DocumentRef-"))
	vAssume(!strings.HasPrefix(run, "LicenseRef-"))

	active, exc, depr := spdxlicenses.GetLicenses(), spdxlicenses.GetExceptions(), spdxlicenses.GetDeprecated()
	any3 := func(s string) bool {
		return vOr(vListedFold(active, s), vOr(vListedFold(exc, s), vListedFold(depr, s)))
	}
	A, E, D := vListedFold(active, run), vListedFold(exc, run), vListedFold(depr, run)
	only, A1, E1, abst := false, false, false, false
	x1 := ""
	if m > 5 {
		x1 = run[:m-5]
		only = strings.HasSuffix(run, "-only")
		A1, E1 = vListedFold(active, x1), vListedFold(exc, x1)
		// a case variant of the suffix, or the suffix on an id that is only deprecated: the
		// statement is silent, the oracle abstains
		abst = vOr(abst, vAnd(strings.EqualFold(run[m-5:], "-only"), any3(x1)))
	}
	plusNext := c > 0 && post[0] == '+'
	A2, E2 := false, false
	if c > 0 {
		A2, E2 = vListedFold(active, run+"-or-later"), vListedFold(exc, run+"-or-later")
	}
	later, A3, E3 := false, false, false
	x3 := ""
	if m > 9 {
		x3 = run[:m-9]
		later = strings.HasSuffix(run, "-or-later")
		A3, E3 = vListedFold(active, x3), vListedFold(exc, x3)
		abst = vOr(abst, vAnd(strings.EqualFold(run[m-9:], "-or-later"), any3(x3)))
	}
	c1 := A
	c2 := vAnd(vNot(A), E)
	n2 := vAnd(vNot(A), vNot(E))
	c3 := vAnd(n2, vAnd(only, A1))
	c3x := vAnd(n2, vAnd(only, vAnd(vNot(A1), E1)))
	n3 := vAnd(n2, vNot(vAnd(only, vOr(A1, E1))))
	c4 := vAnd(n3, vAnd(plusNext, A2))
	c4x := vAnd(n3, vAnd(plusNext, vAnd(vNot(A2), E2)))
	n4 := vAnd(n3, vNot(vAnd(plusNext, vOr(A2, E2))))
	c5 := vAnd(n4, vAnd(later, A3))
	c5x := vAnd(n4, vAnd(later, vAnd(vNot(A3), E3)))
	n5 := vAnd(n4, vNot(vAnd(later, vOr(A3, E3))))
	c6 := vAnd(n5, D)
	c7 := vAnd(n5, vNot(D))
	// abstention zones
	vAssume(vNot(vOr(c3x, vOr(c4x, c5x))))
	vAssume(vNot(vAnd(c7, abst)))

	exp := &expressionStream{expression: buf, index: p}
	exp.skipWhitespace()
	tok := exp.parseToken()
	if exp.err != nil {
		// (the wording and offset of the message are C15's subject, through the public API)
		vAssert(c7, "error-only-for-unknown-id")
		return
	}
	vAssert(vNot(c7), "unknown-id-rejected")
	vAssert(tok != nil, "token-or-error")
	isLic := tok.role == licenseToken
	isExc := tok.role == exceptionToken
	vAssert(vOr(isLic, isExc), "token-role")
	vAssert(vIff(isExc, c2), "exception-token-iff-exception-id")
	// the value is the list's own spelling of the (normalised) lexeme
	vAssert(vImplies(vOr(c1, vOr(c2, c6)), strings.EqualFold(tok.value, run)), "token-equals-reference")
	vAssert(vImplies(c3, strings.EqualFold(tok.value, x1)), "only-suffix-stripped")
	vAssert(vImplies(c4, strings.EqualFold(tok.value, run+"-or-later")), "plus-folded-into-or-later")
	vAssert(vImplies(c5, strings.EqualFold(tok.value, x3)), "or-later-rewritten-to-plus")
	vAssert(vImplies(vOr(c1, vOr(c3, vOr(c4, c5))), vInListExact(active, tok.value)), "list-spelling-active")
	vAssert(vImplies(c2, vInListExact(exc, tok.value)), "list-spelling-exception")
	vAssert(vImplies(c6, vInListExact(depr, tok.value)), "list-spelling-deprecated")
	// unread input preserved
	vAssert(exp.index >= 0 && exp.index <= len(exp.expression), "index-in-range")
	rem := exp.expression[exp.index:]
	wantRem := vOr(vAnd(vNot(vOr(c4, c5)), vStrEq(rem, post)), vAnd(c5, vStrEq(rem, "+"+post)))
	if c > 0 {
		wantRem = vOr(wantRem, vAnd(c4, vStrEq(rem, post[1:])))
	}
	vAssert(wantRem, "unread-input-preserved")
}

// VH_lexRef [p which m c]: "DocumentRef-" / "LicenseRef-" followed by a run of m id characters.
func VH_lexRef(a []string) {
	p, which, m, c := vAtoi(a[0]), a[1], vAtoi(a[2]), vAtoi(a[3])
	prefix := "LicenseRef-"
	if which == "D" {
		prefix = "DocumentRef-"
	}
	pre := vBytes(p, "pre")
	vReachablePrefix(pre, p)
	rest := vBytes(m+c, "rest")
	for i := 0; i < m; i++ {
		vAssume(vIsIDChar(rest[i]))
	}
	if c > 0 {
		vAssume(!vIsIDChar(rest[m]))
	}
	buf := pre + prefix + rest
	vLexRefBody(a, buf, rest, prefix, p, which, m)
	if vReplaying() && vFailedAny() {
		vLiftLexParts(pre, prefix+rest[:m], rest[m:], "api")
	}
}

func vLexRefBody(a []string, buf, rest, prefix string, p int, which string, m int) {
	exp := &expressionStream{expression: buf, index: p}
	exp.skipWhitespace()
	tok := exp.parseToken()
	if m == 0 {
		vAssert(exp.err != nil, "missing-id-rejected")
		return
	}
	vAssert(exp.err == nil, "ref-accepted")
	if exp.err != nil {
		return
	}
	vAssert(tok != nil, "token-or-error")
	if which == "D" {
		vAssert(tok.role == documentRefToken, "token-role")
	} else {
		vAssert(tok.role == licenseRefToken, "token-role")
	}
	vAssert(vStrEq(tok.value, rest[:m]), "ref-id-verbatim")
	vAssert(vStrEq(exp.expression[exp.index:], rest[m:]), "unread-input-preserved")
}

// VH_lexOp [p k c]: operator k at index p, followed by c arbitrary bytes.
func VH_lexOp(a []string) {
	p, k, c := vAtoi(a[0]), vAtoi(a[1]), vAtoi(a[2])
	op := vOps[k]
	pre := vBytes(p, "pre")
	vReachablePrefix(pre, p)
	post := vBytes(c, "post")
	if len(op) > 1 && c > 0 {
		vAssume(!vIsIDChar(post[0])) // keyword glued to an id character: abstain
	}
	buf := pre + op + post
	vLexOpBody(buf, pre, post, op, p)
	if vReplaying() && vFailedAny() {
		vLiftLexParts(pre, op, post, "api")
	}
}

func vLexOpBody(buf, pre, post, op string, p int) {
	exp := &expressionStream{expression: buf, index: p}
	exp.skipWhitespace()
	tok := exp.parseToken()
	if op == "+" && p >= 1 {
		spaceBefore := pre[p-1] == ' '
		vAssert(vIff(exp.err != nil, spaceBefore), "plus-after-space-rejected")
	} else {
		vAssert(exp.err == nil, "operator-accepted")
	}
	if exp.err != nil {
		return
	}
	vAssert(tok != nil, "token-or-error")
	vAssert(tok.role == operatorToken, "token-role")
	vAssert(tok.value == op, "token-equals-reference")
	vAssert(vStrEq(exp.expression[exp.index:], post), "unread-input-preserved")
}

// VH_lexOther [p c]: a byte that starts no lexeme.
func VH_lexOther(a []string) {
	p, c := vAtoi(a[0]), vAtoi(a[1])
	buf := vBytes(p+1+c, "buf")
	vReachablePrefix(buf, p)
	vLexOtherBody(buf, p)
	if vReplaying() && vFailedAny() {
		vLiftLex(buf, "api")
	}
}

func vLexOtherBody(buf string, p int) {
	b := buf[p]
	vAssume(!vIsIDChar(b))
	vAssume(b != ' ')
	vAssume(b != '(')
	vAssume(b != ')')
	vAssume(b != ':')
	vAssume(b != '+')
	exp := &expressionStream{expression: buf, index: p}
	exp.skipWhitespace()
	tok := exp.parseToken()
	vAssert(exp.err != nil, "stray-byte-rejected")
	_ = tok
}

// VH_lexSkip [n p]: skipWhitespace stops at the first non-space at or after p.
func VH_lexSkip(a []string) {
	n, p := vAtoi(a[0]), vAtoi(a[1])
	buf := vBytes(n, "buf")
	exp := &expressionStream{expression: buf, index: p}
	exp.skipWhitespace()
	vAssert(exp.index >= p && exp.index <= n, "index-in-range")
	for i := p; i < exp.index; i++ {
		vAssert(buf[i] == ' ', "skips-only-spaces")
	}
	if exp.index < n {
		vAssert(buf[exp.index] != ' ', "skips-all-spaces")
	}
	vAssert(vStrEq(exp.expression, buf), "buffer-unchanged")
}
