//go:build verif

package spdxexp

// Translator validation (uses library internals: scan, parse, node.string, expand).

// ---------------------------------------------------------------- translator validation

func vTokDump(ts []token) string {
	s := ""
	for _, t := range ts {
		s += vItoa(int(t.role)) + ":" + t.value + "|"
	}
	return s
}

func vExpandDump(n *node) string {
	s := ""
	for _, alt := range n.expand(true) {
		s += "["
		for _, t := range alt {
			s += *t.reconstructedLicenseString() + ","
		}
		s += "]"
	}
	return s
}

// VH_selftest [expr allowed...]: concrete run; every observable of the pipeline is recorded
// with vNote and compared between the engine's interpretation and the native build.
func VH_selftest(a []string) {
	expr, allowed := a[0], a[1:]
	toks, serr := scan(expr)
	vNote("eq:scan", vTokDump(toks))
	if serr != nil {
		vNote("eq:scanerr", serr.Error())
	}
	n, perr := parse(expr)
	if perr != nil {
		vNote("eq:parseerr", perr.Error())
	} else {
		vNote("eq:tree", n.string())
		vNote("eq:expand", vExpandDump(n))
	}
	ok, inv := ValidateLicenses(append([]string{expr}, allowed...))
	vNote("eq:validate", vShowBool(ok)+vShowList(inv))
	l, eerr := ExtractLicenses(expr)
	vNote("eq:extract", vShowList(l))
	if eerr != nil {
		vNote("eq:extracterr", eerr.Error())
	}
	r, err := Satisfies(expr, allowed)
	vNote("eq:satisfies", vShowBool(r))
	if err != nil {
		vNote("eq:satisfieserr", err.Error())
	}
	vAssert(true, "ran")
}

// VH_selftestCaps []: append growth of the slice types the library uses, against the runtime.
func VH_selftestCaps(a []string) {
	s := ""
	var p []*node
	var q []string
	var r [][]*node
	var t []token
	var u []int
	var w []byte
	for i := 0; i < 70; i++ {
		p = append(p, nil)
		q = append(q, "")
		r = append(r, nil)
		t = append(t, token{})
		u = append(u, 0)
		w = append(w, 0)
		s += vItoa(cap(p)) + "," + vItoa(cap(q)) + "," + vItoa(cap(r)) + "," + vItoa(cap(t)) + "," + vItoa(cap(u)) + "," + vItoa(cap(w)) + ";"
	}
	// multi-element appends
	for k := 1; k < 9; k++ {
		x := make([]*node, k)
		for j := 1; j < 9; j++ {
			y := append(x, make([]*node, j)...)
			s += vItoa(cap(y)) + ","
		}
		x2 := []*node{nil}
		x2 = append(x2, make([]*node, k)...)
		x2 = append(x2, make([]*node, k)...)
		s += vItoa(cap(x2)) + ";"
	}
	vNote("eq:caps", s)
	vAssert(true, "ran")
}
