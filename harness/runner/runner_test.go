//go:build verif

package spdxexp

// Native replay runner: executes harness functions on replay vectors (solver models) against
// the real build. Overlaid into /repo/spdxexp as a _test file by ./check; never written there.

import (
	"bufio"
	"encoding/json"
	"fmt"
	"os"
	"runtime/debug"
	"strings"
	"syscall"
	"testing"
)

// capture of everything the process writes to fd 1 / fd 2 while a purity harness runs
type vCapture struct {
	f            *os.File
	save1, save2 int
}

func vStartCapture() *vCapture {
	f, err := os.CreateTemp("", "vcap")
	if err != nil {
		return nil
	}
	c := &vCapture{f: f}
	c.save1, _ = syscall.Dup(1)
	c.save2, _ = syscall.Dup(2)
	os.Stdout.Sync()
	syscall.Dup2(int(f.Fd()), 1)
	syscall.Dup2(int(f.Fd()), 2)
	vOutputProbe = func() int {
		st, err := f.Stat()
		if err != nil {
			return 0
		}
		return int(st.Size())
	}
	return c
}

func (c *vCapture) stop() string {
	if c == nil {
		return ""
	}
	syscall.Dup2(c.save1, 1)
	syscall.Dup2(c.save2, 2)
	syscall.Close(c.save1)
	syscall.Close(c.save2)
	vOutputProbe = nil
	b, _ := os.ReadFile(c.f.Name())
	c.f.Close()
	os.Remove(c.f.Name())
	if len(b) > 4000 {
		b = b[:4000]
	}
	return string(b)
}

type vReq struct {
	ID      string   `json:"id"`
	Harness string   `json:"harness"`
	Args    []string `json:"args"`
	Vector  []vEntry `json:"vector"`
}

type vResp struct {
	ID       string            `json:"id"`
	Failed   []string          `json:"failed"`
	Reached  []string          `json:"reached"`
	Notes    map[string]string `json:"notes"`
	Panic    string            `json:"panic,omitempty"`
	PanicAt  string            `json:"panic_at,omitempty"`
	Assume   bool              `json:"assume_failed,omitempty"`
	Mismatch string            `json:"mismatch,omitempty"`
	Output   string            `json:"output,omitempty"`
	Race     bool              `json:"race,omitempty"`
}

func vRunOne(req vReq) (resp vResp) {
	resp.ID = req.ID
	defer func() {
		resp.Failed, resp.Reached, resp.Notes = vRT.failed, vRT.reached, vRT.notes
		if r := recover(); r != nil {
			switch e := r.(type) {
			case vAssumeFailed:
				resp.Assume = true
			case vMismatch:
				resp.Mismatch = e.msg
			default:
				resp.Panic = fmt.Sprint(r)
				// first frame inside the library (not the harness, not the runtime)
				for _, l := range strings.Split(string(debug.Stack()), "\n") {
					l = strings.TrimSpace(l)
					if strings.Contains(l, "/spdxexp/") && strings.Contains(l, ".go:") && !strings.Contains(l, "zz_verif_") {
						resp.PanicAt = l
						break
					}
				}
			}
		}
	}()
	vReset(req.Vector)
	f, ok := vHarnesses[req.Harness]
	if !ok {
		resp.Mismatch = "unknown harness " + req.Harness
		return
	}
	if strings.HasPrefix(req.Harness, "VH_pure") {
		c := vStartCapture()
		defer func() {
			resp.Output = c.stop()
			resp.Race = strings.Contains(resp.Output, "DATA RACE")
		}()
	}
	f(req.Args)
	return
}

func TestVerifReplay(t *testing.T) {
	inPath, outPath := os.Getenv("VERIF_REPLAY_IN"), os.Getenv("VERIF_REPLAY_OUT")
	if inPath == "" {
		t.Skip("no replay input")
	}
	in, err := os.Open(inPath)
	if err != nil {
		t.Fatal(err)
	}
	defer in.Close()
	out, err := os.Create(outPath)
	if err != nil {
		t.Fatal(err)
	}
	defer out.Close()
	w := bufio.NewWriter(out)
	defer w.Flush()
	sc := bufio.NewScanner(in)
	sc.Buffer(make([]byte, 1<<20), 1<<26)
	enc := json.NewEncoder(w)
	for sc.Scan() {
		var req vReq
		if err := json.Unmarshal(sc.Bytes(), &req); err != nil {
			t.Fatal(err)
		}
		enc.Encode(vRunOne(req))
	}
}

// Cold start under concurrency: in a fresh process the very first calls into the library come
// from many goroutines at once (lazily initialised package-level state is built here, if there
// is any). Results must equal those of a later sequential run; the binary is built with
// -race, so an unsynchronised initialisation is reported by the race detector.
func TestVerifColdStart(t *testing.T) {
	if os.Getenv("VERIF_COLD") == "" {
		t.Skip("not requested")
	}
	exprs := append([]string{"MIT AND (Apache-2.0 OR GPL-2.0+)", "zlib-acknowledgement AND wxWindows OR ZPL-2.1", "GPL-2.0-only WITH Classpath-exception-2.0",
		"LicenseRef-x OR DocumentRef-d:LicenseRef-y", "(Apache-2.0-or-later)", "mit AND isc", "NOT-A-LICENSE"}, vPool...)
	allowed := []string{"MIT", "Apache-2.0", "GPL-3.0-only", "zlib", "LicenseRef-x"}
	type res struct {
		sat     bool
		satErr  bool
		ext     string
		valid   bool
		invalid string
	}
	one := func(e string) res {
		var r res
		s, err := Satisfies(e, allowed)
		r.sat, r.satErr = s, err != nil
		l, _ := ExtractLicenses(e)
		r.ext = fmt.Sprint(l)
		ok, inv := ValidateLicenses([]string{e, "Zlib", e})
		r.valid, r.invalid = ok, fmt.Sprint(inv)
		return r
	}
	const G = 16
	got := make([][]res, G)
	start := make(chan struct{})
	done := make(chan int, G)
	for g := 0; g < G; g++ {
		go func(g int) {
			<-start
			out := make([]res, len(exprs))
			for i := range exprs {
				out[i] = one(exprs[(i+g)%len(exprs)])
			}
			got[g] = out
			done <- g
		}(g)
	}
	close(start)
	for g := 0; g < G; g++ {
		<-done
	}
	bad := 0
	for g := 0; g < G; g++ {
		for i := range exprs {
			if got[g][i] != one(exprs[(i+g)%len(exprs)]) {
				bad++
				fmt.Printf("COLD-MISMATCH expression %q: concurrent first use and sequential use disagree\n", exprs[(i+g)%len(exprs)])
			}
		}
	}
	if bad > 0 {
		t.Fail()
	}
}
