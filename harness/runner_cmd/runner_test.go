//go:build verif

package main

// Native replay runner: executes harness functions on replay vectors (solver models) against
// the real build. Overlaid into /repo/spdxexp as a _test file by ./check; never written there.

import (
	"bufio"
	"encoding/json"
	"fmt"
	"os"
	"runtime/debug"
	"strings"
	"syscall"
	"testing"
)

// capture of everything the process writes to fd 1 / fd 2 while a purity harness runs
type vCapture struct {
	f            *os.File
	save1, save2 int
}

func vStartCapture() *vCapture {
	f, err := os.CreateTemp("", "vcap")
	if err != nil {
		return nil
	}
	c := &vCapture{f: f}
	c.save1, _ = syscall.Dup(1)
	c.save2, _ = syscall.Dup(2)
	os.Stdout.Sync()
	syscall.Dup2(int(f.Fd()), 1)
	syscall.Dup2(int(f.Fd()), 2)
	vOutputProbe = func() int {
		st, err := f.Stat()
		if err != nil {
			return 0
		}
		return int(st.Size())
	}
	return c
}

func (c *vCapture) stop() string {
	if c == nil {
		return ""
	}
	syscall.Dup2(c.save1, 1)
	syscall.Dup2(c.save2, 2)
	syscall.Close(c.save1)
	syscall.Close(c.save2)
	vOutputProbe = nil
	b, _ := os.ReadFile(c.f.Name())
	c.f.Close()
	os.Remove(c.f.Name())
	if len(b) > 4000 {
		b = b[:4000]
	}
	return string(b)
}

type vReq struct {
	ID      string   `json:"id"`
	Harness string   `json:"harness"`
	Args    []string `json:"args"`
	Vector  []vEntry `json:"vector"`
}

type vResp struct {
	ID       string            `json:"id"`
	Failed   []string          `json:"failed"`
	Reached  []string          `json:"reached"`
	Notes    map[string]string `json:"notes"`
	Panic    string            `json:"panic,omitempty"`
	PanicAt  string            `json:"panic_at,omitempty"`
	Assume   bool              `json:"assume_failed,omitempty"`
	Mismatch string            `json:"mismatch,omitempty"`
	Output   string            `json:"output,omitempty"`
	Race     bool              `json:"race,omitempty"`
}

func vRunOne(req vReq) (resp vResp) {
	resp.ID = req.ID
	defer func() {
		resp.Failed, resp.Reached, resp.Notes = vRT.failed, vRT.reached, vRT.notes
		if r := recover(); r != nil {
			switch e := r.(type) {
			case vAssumeFailed:
				resp.Assume = true
			case vMismatch:
				resp.Mismatch = e.msg
			default:
				resp.Panic = fmt.Sprint(r)
				// first frame inside the library (not the harness, not the runtime)
				for _, l := range strings.Split(string(debug.Stack()), "\n") {
					l = strings.TrimSpace(l)
					if strings.Contains(l, "/cmd/") && strings.Contains(l, ".go:") && !strings.Contains(l, "zz_verif_") {
						resp.PanicAt = l
						break
					}
				}
			}
		}
	}()
	vReset(req.Vector)
	defer vGenCleanup()
	f, ok := vHarnesses[req.Harness]
	if !ok {
		resp.Mismatch = "unknown harness " + req.Harness
		return
	}
	if strings.HasPrefix(req.Harness, "VH_pure") {
		c := vStartCapture()
		defer func() {
			resp.Output = c.stop()
			resp.Race = strings.Contains(resp.Output, "DATA RACE")
		}()
	}
	f(req.Args)
	return
}

func TestVerifReplay(t *testing.T) {
	inPath, outPath := os.Getenv("VERIF_REPLAY_IN"), os.Getenv("VERIF_REPLAY_OUT")
	if inPath == "" {
		t.Skip("no replay input")
	}
	in, err := os.Open(inPath)
	if err != nil {
		t.Fatal(err)
	}
	defer in.Close()
	out, err := os.Create(outPath)
	if err != nil {
		t.Fatal(err)
	}
	defer out.Close()
	w := bufio.NewWriter(out)
	defer w.Flush()
	sc := bufio.NewScanner(in)
	sc.Buffer(make([]byte, 1<<20), 1<<26)
	enc := json.NewEncoder(w)
	for sc.Scan() {
		var req vReq
		if err := json.Unmarshal(sc.Bytes(), &req); err != nil {
			t.Fatal(err)
		}
		enc.Encode(vRunOne(req))
	}
}
