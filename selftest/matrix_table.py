#!/usr/bin/env python3
"""Print the seeded-change matrix (markdown) from /verif/seeded/*/meta.json."""
import json, glob
print('| seed | breaks | what it needs to manifest | outcome (quick checks) |')
print('|---|---|---|---|')
for d in sorted(glob.glob('/verif/seeded/*/meta.json')):
    m = json.load(open(d)); sid = m['id']
    if sid.startswith('neg-'):
        out = ', '.join('%s %s' % (p, {0: 'quiet', 1: 'FALSE ALARM', 2: 'inconclusive'}[v['exit']]) for p, v in m['results'].items())
        print('| %s | nothing (behaviour-preserving) | %s | %s |' % (sid, m['what'][:150].replace('|', '/'), out))
    else:
        det = ', '.join(m['detected_by']) or 'NOT CAUGHT'
        miss = [p for p in m['results'] if p not in m['detected_by']]
        extra = ('; also run, not caught by: ' + ', '.join('%s (exit %d)' % (p, m['results'][p]['exit']) for p in miss)) if miss else ''
        print('| %s | %s | %s | caught by %s%s |' % (sid, m['breaks_property'], m['needs_to_manifest'][:150].replace('|', '/'), det, extra))
