#!/bin/bash
# usage: verify_seed.sh <dir with patch.diff demo_test.go> [race]
# Confirms, in a scratch worktree outside /repo and /verif, that a seeded change (a) applies,
# (b) keeps the existing tests green, (c) makes its demonstration fail, and (d) the
# demonstration passes without it. Prints one line per step; exit 0 iff all four hold.
set -u
d=$(readlink -f "$1"); race=${2:-}
wt=/tmp/wt-verify.$$
export GOFLAGS=-mod=mod GOPROXY=off GOSUMDB=off GOTOOLCHAIN=local
git -C /repo worktree add -q --detach "$wt" HEAD || exit 3
trap 'git -C /repo worktree remove --force "$wt" >/dev/null 2>&1' EXIT
cd "$wt" || exit 3
pkg=spdxexp
grep -q '^package main' "$d/demo_test.go" && pkg=cmd
ok=0
git apply "$d/patch.diff" && echo "applies: yes" || { echo "applies: NO"; exit 1; }
if go build ./... >/dev/null 2>&1 && go test -count=1 ./cmd/... ./spdxexp/... >/tmp/vs.log 2>&1; then echo "existing tests with patch: pass"; else echo "existing tests with patch: FAIL"; ok=1; fi
cp "$d/demo_test.go" $pkg/zz_demo_test.go
if go test $race -count=1 -run TestMutantDemo ./$pkg >/tmp/vs2.log 2>&1; then echo "demo with patch: PASSES (expected fail)"; ok=1; else echo "demo with patch: fails"; fi
rm $pkg/zz_demo_test.go; git checkout -q -- .
cp "$d/demo_test.go" $pkg/zz_demo_test.go
if go test $race -count=1 -run TestMutantDemo ./$pkg >/tmp/vs3.log 2>&1; then echo "demo without patch: passes"; else echo "demo without patch: FAILS (expected pass)"; tail -5 /tmp/vs3.log; ok=1; fi
rm $pkg/zz_demo_test.go
exit $ok
