#!/bin/bash
# usage: run_mutant.sh <patch.diff> <prop> [<prop> ...]
# Applies a seeded change to /repo, runs the named checks (quick), prints their exit codes,
# and always restores /repo. Development aid; not a registered command.
set -u
patch=$(readlink -f "$1"); shift
cd /repo || exit 3
if [ -n "$(git status --porcelain)" ]; then echo "/repo not clean"; exit 3; fi
git apply "$patch" || { echo "patch does not apply"; exit 3; }
trap 'git -C /repo checkout -- . ; git -C /repo clean -fdq' EXIT
export GOFLAGS=-mod=mod GOPROXY=off GOSUMDB=off GOTOOLCHAIN=local
if go build ./... >/dev/null 2>&1 && go test -count=1 ./... >/tmp/mutant_tests.log 2>&1; then echo "repo-tests: pass"; else echo "repo-tests: FAIL"; tail -5 /tmp/mutant_tests.log; fi
cd /verif
for p in "$@"; do
  out=$(./check "$p" quick 2>&1); rc=$?
  echo "check $p exit=$rc $(echo "$out" | grep -c '^VIOLATION') violation lines; $(echo "$out" | grep -m1 -A1 '^VIOLATION' | tail -1 | cut -c1-200) $(echo "$out" | grep -m1 '^INCONCLUSIVE' | cut -c1-200)"
done
