#!/usr/bin/env python3
"""Run the seeded changes under /verif/seeded against the checks of their target property
(and a few related ones), and record the outcome in each seed's meta.json.
Development aid, not a registered command:  seed_matrix.py [seed-id ...]"""
import json, os, subprocess, sys, re

ROOT = '/verif/seeded'
NEG = {'neg-1-1': ['C05', 'C03', 'C15'], 'neg-1-2': ['C09', 'C12', 'C02', 'C08'], 'neg-1-3': ['C02', 'C11', 'C13', 'C01'], 'neg-2-1': ['C05', 'C03', 'C04'],
       'neg-2-2': ['C01', 'C06', 'C10', 'C07'], 'neg-2-3': ['C15', 'C05', 'C04', 'C03'], 'neg-3-1': ['C05', 'C15', 'C04', 'C03'], 'neg-3-2': ['C09', 'C08', 'C12'],
       'neg-3-3': ['C02', 'C11', 'C08'], 'neg-4-1': ['C01', 'C06', 'C10', 'C03'], 'neg-4-2': ['C05', 'C15', 'C04', 'C13'], 'neg-4-3': ['C02', 'C09', 'C11', 'C13'],
       'neg-5-1': ['C12'], 'neg-5-2': ['C12', 'C13', 'C02', 'C01'], 'neg-5-3': ['C09', 'C02', 'C11', 'C12']}
EXTRA = {
    'C02-r5-1': ['C11', 'C08'], 'C03-r5-1': ['C06'], 'C10-r5-1': ['C01'], 'C12-r5-1': ['C09'], 'C13-r5-1': ['C07'], 'C08-r5-1': ['C02'],
    'C04-m1': ['C13'], 'C05-m1': ['C04', 'C13'], 'C13-m2': ['C05'], 'C12-m2': ['C09'], 'C08-m2': ['C01'], 'C10-m1': ['C01', 'C06'],
    'C11-m2': ['C02'], 'C06-m2': ['C01'], 'C04-m2': ['C05', 'C12'], 'C05-m2': ['C04', 'C12'], 'C09-m2': ['C13'], 'C15-m2': ['C13'],
    'C10-r4-32': ['C05'], 'C07-r4-41': ['C01'], 'C09-r4-21': ['C08'], 'C04-r4-12': ['C05'],
    'C02-r3-12': ['C08'], 'C05-r3-21': ['C08', 'C01'], 'C01-r3-22': ['C06', 'C10'], 'C11-r3-11': ['C02'],
    'C06-r2-11': ['C10'], 'C01-r2-61': ['C10', 'C06'], 'C11-r2-41': ['C02'], 'C13-r2-32': ['C07'], 'C07-r2-51': ['C13'],
    'regress-F2-ref-under-or': ['C06', 'C10', 'C03'], 'regress-F3-and-alternatives': ['C06', 'C10'], 'regress-F4-append-aliasing': ['C06', 'C10'],
    'regress-F5-or-later-dropped-char': ['C08', 'C04'], 'regress-F7a-agpl-only': ['C11'], 'regress-F1-parser-nil-token': ['C04'],
}


def main():
    ids = sys.argv[1:] or sorted(os.listdir(ROOT))
    for sid in ids:
        d = os.path.join(ROOT, sid)
        if not os.path.exists(os.path.join(d, 'patch.diff')):
            continue
        if sid.startswith('neg-'):
            patch = os.path.join(d, 'patch_lib_only.diff') if os.path.exists(os.path.join(d, 'patch_lib_only.diff')) else os.path.join(d, 'patch.diff')
            props = NEG[sid]
            r = subprocess.run(['/verif/selftest/run_mutant.sh', patch] + props, capture_output=True, text=True)
            res = {}
            for m in re.finditer(r'^check (\S+) exit=(\d+) (\d+) violation lines;(.*)$', r.stdout, re.M):
                res[m.group(1)] = dict(exit=int(m.group(2)), violation_lines=int(m.group(3)), first=m.group(4).strip()[:300])
            meta = dict(id=sid, kind='behaviour-preserving change (the properties still hold): the checks must stay quiet',
                        origin='independent sub-agent asked for refactorings / optimisations / reworded messages that keep the behaviour',
                        what=' '.join(open(os.path.join(d, 'README.txt')).read().split())[:600],
                        existing_tests_with_patch='pass' if 'repo-tests: pass' in r.stdout else 'FAIL (the patch rewords messages the tests compare; see patch.diff for the test edits)',
                        ran='git -C /repo apply <patch>; ./check <P> quick for P in %s; git -C /repo checkout -- .' % props,
                        results=res, false_alarms=[p for p, v in res.items() if v['exit'] == 1], inconclusive=[p for p, v in res.items() if v['exit'] == 2])
            json.dump(meta, open(os.path.join(d, 'meta.json'), 'w'), indent=1)
            print(sid, {p: v['exit'] for p, v in res.items()}, flush=True)
            continue
        if sid.startswith('regress-'):
            prop = open(os.path.join(d, 'prop.txt')).read().strip()
            needs = open(os.path.join(d, 'fix_subject.txt')).read().strip()
            origin = 'reverse of the fix: commit in /repo'
        else:
            prop = sid.split('-')[0]
            readme = open(os.path.join(d, 'README.txt')).read()
            needs = ' '.join(readme.split())[:600]
            origin = 'independent sub-agent given only the property text and a scratch worktree'
        props = [prop] + EXTRA.get(sid, [])
        r = subprocess.run(['/verif/selftest/run_mutant.sh', os.path.join(d, 'patch.diff')] + props, capture_output=True, text=True)
        out = r.stdout
        res = {}
        for m in re.finditer(r'^check (\S+) exit=(\d+) (\d+) violation lines;(.*)$', out, re.M):
            res[m.group(1)] = dict(exit=int(m.group(2)), violation_lines=int(m.group(3)), first=m.group(4).strip()[:300])
        tests = 'pass' if 'repo-tests: pass' in out else 'FAIL'
        meta = dict(id=sid, breaks_property=prop, origin=origin, needs_to_manifest=needs, existing_tests_with_patch=tests,
                    ran='git -C /repo apply patch.diff; ./check <P> quick for P in %s; git -C /repo checkout -- .' % props,
                    results=res, detected_by=[p for p, v in res.items() if v['exit'] == 1 and v['violation_lines'] > 0],
                    confirmed='verify_seed.sh: patch applies, existing tests pass with it, demo fails with it and passes without it' if not sid.startswith('regress-') else 'the check that found the original defect')
        with open(os.path.join(d, 'meta.json'), 'w') as f:
            json.dump(meta, f, indent=1)
        print(sid, tests, {p: v['exit'] for p, v in res.items()}, flush=True)


if __name__ == '__main__':
    main()
